"""Static scan of the code under test for statements that write to memory which may be shared
between calls or threads: the scheduler pre-empts right AFTER such a statement with raised
probability and lets another worker run a long stretch ("pre-empt after shared write").

A race on shared state needs (i) a write by one thread and (ii) another thread passing through the
window that the write opens.  Uniformly random pre-emption over the 2 000-6 000 line events of an
operation hits a one-line window about once in a few thousand operations; the windows, however, all
start at one of a handful of statements, and those can be recognised syntactically:

  * assignment / augmented assignment / deletion whose target is a subscript or an attribute of an
    object that is not a plain local of the function (a parameter, a global, a closure variable,
    ``self``), or a name declared ``global`` / ``nonlocal``;
  * a call of a mutating method (append, update, pop, clear, setdefault, ...) on such an object.

The scan is purely syntactic (ast), deterministic, and errs on the side of flagging too much
(parameters often are fresh local objects); a superfluous pre-emption costs nothing.
"""

from __future__ import annotations

import ast
import os

MUTATORS = {
    "append", "extend", "insert", "pop", "popitem", "clear", "update", "setdefault", "add", "discard", "remove",
    "sort", "reverse", "move_to_end", "appendleft", "popleft", "__setitem__", "__delitem__",
}


def _base_name(node):
    while isinstance(node, (ast.Subscript, ast.Attribute)):
        node = node.value
    return node.id if isinstance(node, ast.Name) else None


class _Fn(ast.NodeVisitor):
    def __init__(self, fn):
        self.locals = set()
        self.declared_shared = set()
        self.fn = fn
        for node in ast.walk(fn):
            if isinstance(node, (ast.Global, ast.Nonlocal)):
                self.declared_shared.update(node.names)
        for node in self._own_nodes(fn):
            for tgt in self._name_targets(node):
                self.locals.add(tgt)
        self.locals -= self.declared_shared

    def _own_nodes(self, fn):
        """Nodes of ``fn`` without the bodies of nested functions / classes / lambdas."""
        stack = list(ast.iter_child_nodes(fn))
        while stack:
            n = stack.pop()
            yield n
            if isinstance(n, (ast.FunctionDef, ast.AsyncFunctionDef, ast.ClassDef, ast.Lambda)):
                continue
            stack.extend(ast.iter_child_nodes(n))

    @staticmethod
    def _name_targets(node):
        tgts = []
        if isinstance(node, ast.Assign):
            tgts = node.targets
        elif isinstance(node, (ast.AnnAssign, ast.AugAssign)):
            tgts = [node.target]
        elif isinstance(node, (ast.For, ast.AsyncFor)):
            tgts = [node.target]
        elif isinstance(node, (ast.With, ast.AsyncWith)):
            tgts = [i.optional_vars for i in node.items if i.optional_vars is not None]
        elif isinstance(node, ast.NamedExpr):
            tgts = [node.target]
        elif isinstance(node, ast.comprehension):
            tgts = [node.target]
        out = []
        for t in tgts:
            for sub in ast.walk(t):
                if isinstance(sub, ast.Name) and isinstance(sub.ctx, ast.Store):
                    out.append(sub.id)
        return out

    def shared(self, name):
        return name is not None and (name in self.declared_shared or name not in self.locals)

    def flagged_statements(self):
        out = []
        for node in self._own_nodes(self.fn):
            if not isinstance(node, ast.stmt):
                continue
            hit = False
            tgts = []
            if isinstance(node, ast.Assign):
                tgts = node.targets
            elif isinstance(node, (ast.AugAssign, ast.AnnAssign)):
                tgts = [node.target]
            elif isinstance(node, ast.Delete):
                tgts = node.targets
            for t in tgts:
                for sub in ast.walk(t) if isinstance(t, (ast.Tuple, ast.List)) else [t]:
                    if isinstance(sub, (ast.Subscript, ast.Attribute)) and self.shared(_base_name(sub)):
                        hit = True
                    if isinstance(sub, ast.Name) and sub.id in self.declared_shared:
                        hit = True
            if not hit and isinstance(node, (ast.Expr, ast.Assign, ast.AugAssign, ast.AnnAssign, ast.Return)):
                for sub in ast.walk(node):
                    if isinstance(sub, (ast.FunctionDef, ast.Lambda)):
                        continue
                    if (
                        isinstance(sub, ast.Call)
                        and isinstance(sub.func, ast.Attribute)
                        and sub.func.attr in MUTATORS
                        and self.shared(_base_name(sub.func.value))
                    ):
                        hit = True
                        break
            if hit:
                out.append((node.lineno, getattr(node, "end_lineno", node.lineno)))
        return out


def scan_file(path):
    try:
        with open(path, encoding="utf-8") as fh:
            tree = ast.parse(fh.read(), filename=path)
    except (OSError, SyntaxError):
        return {}
    out = {}
    for node in ast.walk(tree):
        if isinstance(node, (ast.FunctionDef, ast.AsyncFunctionDef)):
            for lo, hi in _Fn(node).flagged_statements():
                for ln in range(lo, hi + 1):
                    out[ln] = (lo, hi)
    return out


def scan_tree(root):
    """{filename: {lineno: (first line, last line) of the flagged statement}}"""
    res = {}
    for d, _, files in sorted(os.walk(root)):
        for f in sorted(files):
            if f.endswith(".py"):
                p = os.path.join(d, f)
                m = scan_file(p)
                if m:
                    res[os.path.realpath(p)] = m
    return res


if __name__ == "__main__":
    import sys

    r = scan_tree(sys.argv[1])
    n = 0
    for fn, m in r.items():
        stmts = sorted(set(m.values()))
        n += len(stmts)
        print(os.path.basename(fn), stmts)
    print("flagged statements:", n)
