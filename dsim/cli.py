import os
import sys

sys.path.insert(0, os.path.dirname(os.path.dirname(os.path.abspath(__file__))))

from dsim.main import main  # noqa: E402

if __name__ == "__main__":
    sys.exit(main())
