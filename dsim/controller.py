"""Execute one run plan: start the incarnations, merge their histories, apply the oracles."""

from __future__ import annotations

import hashlib
import os
import time

from dsim import oracles, runner
from dsim.oracles import History

ALL_ORACLES = ("C09", "C03", "C04", "C06", "C08")


def _ops_by_id(plan):
    out = {}
    for i, inc in enumerate(plan["incarnations"]):
        for ph in inc["phases"]:
            for op in ph["ops"]:
                out[op["id"]] = (op, i, ph["name"])
    return out


def event_digest(reports):
    h = hashlib.sha256()
    for rep in reports:
        h.update(repr(rep.get("event_log")).encode())
    return h.hexdigest()[:20]


def execute_run(plan: dict, schedule: list | None = None, timeout_s: int = 900) -> dict:
    """Returns the run report (small: no result arrays)."""
    t0 = time.time()
    store = {}
    reports = []
    records = []
    ops = _ops_by_id(plan)
    harness_error = None
    import shutil
    import tempfile

    run_root = tempfile.mkdtemp(prefix="run-", dir=runner.scratch_root())
    xla_cache = os.path.join(run_root, "xla")
    os.makedirs(xla_cache)
    for i, inc in enumerate(plan["incarnations"]):
        sched = dict(inc["sched"])
        if schedule is not None:
            sched["decisions"] = schedule[i] if i < len(schedule) else []
        inc_plan = {
            "models": plan["models"],
            "params": plan["params"],
            "batches": plan["batches"],
            "store": store,
            "phases": inc["phases"],
            "sched": sched,
            "spy": plan.get("spy", "off"),
            "script_seed": plan.get("script_seed", 0),
        }
        try:
            # the session's disk survives restarts; the isolated reference incarnation is another machine
            disk = os.path.join(run_root, "disk-iso" if inc.get("iso") else "disk")
            rep = runner.run_incarnation(inc_plan, inc["hashseed"], timeout_s=timeout_s, xla_cache=xla_cache, disk=disk)
            rep.setdefault("probes", {})["files_on_disk_after"] = sum(len(f) for _, _, f in os.walk(disk))
        except runner.IncarnationFailure as e:
            harness_error = f"incarnation {i}: {e}"
            break
        reports.append(rep)
        for opid, rec in rep["records"].items():
            op, _, _ = ops[opid]
            rec = dict(rec)
            rec["op"] = op
            rec["inc"] = i
            records.append(rec)
        store = rep.get("store", {})
        if not rep.get("ok"):
            harness_error = f"incarnation {i}: {rep.get('harness_error')}\n{rep.get('stderr_tail', '')}"
            break
    shutil.rmtree(run_root, ignore_errors=True)
    records.sort(key=lambda r: r["id"])
    out = {
        "run_seed": plan.get("run_seed"),
        "profile": plan.get("profile"),
        "harness_error": harness_error,
        "event_digest": event_digest(reports),
        "decisions": [rep.get("decisions", []) for rep in reports],
        "swarm": plan.get("swarm"),
    }
    violations = []
    stats = _stats(plan, records, reports)
    if harness_error is None:
        h = History(plan, records)
        oracle_errors = []

        def run_oracle(name, fn):
            # an oracle that trips over a malformed result must not swallow what the others found
            import traceback

            try:
                return fn()
            except Exception as e:  # noqa: BLE001
                oracle_errors.append(f"oracle {name} crashed: {e!r}\n{traceback.format_exc()[-1200:]}")
                return None

        for name, fn in (("C09", oracles.oracle_c09), ("C03", oracles.oracle_c03), ("C06", oracles.oracle_c06), ("C04-exact", oracles.oracle_c04_exact)):
            violations += run_oracle(name, lambda fn=fn: fn(h)) or []
        r8 = run_oracle("C08", lambda: oracles.oracle_c08(h))
        if r8:
            violations += r8[0]
            stats["c08_agents_in_memo"] = r8[1]
        if plan.get("profile") in ("C03", "C04", "C06", "C08"):
            violations += run_oracle("no-result", lambda: oracles.oracle_no_result(h, plan["profile"])) or []
        if plan.get("profile") == "C04" or plan.get("c04_stats"):
            from dsim import stats as st

            r4 = run_oracle("C04-stats", lambda: st.oracle_c04_stats(h))
            if r4:
                violations += r4[0]
                stats["c04"] = r4[1]
        out["oracle_errors"] = oracle_errors
        stats["c06_ongrid_rows"] = sum(r.get("_ongrid", 0) for r in records)
        stats["c04_seam_rows_checked"] = sum(r.get("_seam_rows_checked", 0) for r in records)
        stats["c04_seam_calls"] = sum(r.get("_seam_rc", 0) for r in records)
        stats["seam_present"] = all(rep.get("seam", {}).get("random_choice", False) for rep in reports) if plan.get("spy") != "off" else None
    out["violations"] = violations
    out["stats"] = stats
    out["wall_s"] = round(time.time() - t0, 2)
    out["sample"] = _sample(plan, records)
    return out


def _stats(plan, records, reports):
    s = {
        "ops": len(records),
        "ops_ok": sum(1 for r in records if r["status"] == "ok"),
        "ops_exc": sum(1 for r in records if r["status"] == "exc"),
        "ops_skipped": sum(1 for r in records if r["status"] == "skipped"),
        "line_events": sum(r.get("events", 0) for r in records),
        "by_kind": {},
        "faults_configured": {},
        "faults_fired": {},
        "incarnations": len(reports),
        "switches": sum(rep.get("probes", {}).get("switches", 0) for rep in reports),
        "probes": {},
        "preempt_sites": {},
        "sig_count": len({r["op"].get("sig") for r in records if r["op"].get("sig")}),
    }
    for r in records:
        s["by_kind"][r["kind"]] = s["by_kind"].get(r["kind"], 0) + 1
        for f in r["op"].get("faults", []):
            s["faults_configured"][f["kind"]] = s["faults_configured"].get(f["kind"], 0) + 1
        for f in r.get("faults_fired", []):
            s["faults_fired"][f[0]] = s["faults_fired"].get(f[0], 0) + 1
    for rep in reports:
        for k, v in rep.get("probes", {}).items():
            if k == "preempt_sites":
                for site, n in v.items():
                    s["preempt_sites"][site] = s["preempt_sites"].get(site, 0) + n
            elif k != "switches":
                s["probes"][k] = s["probes"].get(k, 0) + v
    # reach probes over the history
    pr = s["probes"]
    pr["restart"] = int(len(reports) > 1)
    pr["solution_crossed_restart"] = sum(1 for r in records if r["kind"] == "SIMULATE" and r["status"] == "ok" and r["op"].get("vsrc_kind") == "store")
    pr["handle_reused_after_fault"] = 0
    faulted_handles = {}
    for r in records:
        hnd = r["op"].get("handle")
        if hnd is None:
            continue
        if r["status"] == "exc" and r.get("faults_fired"):
            faulted_handles[(r["inc"], hnd)] = r["id"]
        elif r["status"] == "ok" and (r["inc"], hnd) in faulted_handles and r["id"] > faulted_handles[(r["inc"], hnd)]:
            pr["handle_reused_after_fault"] += 1
    pr["fault_between_periods"] = sum(
        1 for r in records for f in r.get("faults_fired", []) if f[0] == "log_error" and f[1] >= 2
    )
    pr["fault_inside_build"] = sum(1 for r in records if r["kind"] == "BUILD" and r["status"] == "exc" and r.get("faults_fired"))
    pr["mutate_ops"] = sum(1 for r in records if r["kind"] == "MUTATE" and r["status"] == "ok")
    pr["clear_caches_ops"] = sum(1 for r in records if r["kind"] == "CLEAR_CACHES" and r["status"] == "ok")
    pr["log_level_debug"] = int(any(rep.get("env", {}).get("log_level") == 10 for rep in reports))
    pr["scripted_rare_draws"] = 0
    for r in records:
        for sp in r.get("spy", []) or []:
            if sp["kind"] == "script":
                p = sp["probs"][range(len(sp["idx"])), sp["idx"]]
                pr["scripted_rare_draws"] += int((p < 0.05).sum())
    return s


def _sample(plan, records):
    """A compact description of what the run did (for the evidence file)."""
    models = {mid: oracles.shape_key(r) + f" T={r['n_periods']}" for mid, r in plan["models"].items()}
    ops = []
    for r in records[:40]:
        op = r["op"]
        d = f"{r['phase'][:3]}/w{r['worker']} {r['kind']}"
        if op.get("handle"):
            d += f"({op['handle']})"
        if op.get("sig"):
            d += f" {op['sig']}"
        if op.get("faults"):
            d += " faults=" + ",".join(f["kind"] for f in op["faults"])
        d += f" -> {r['status']}" + (f":{r.get('exc_type')}" if r["status"] == "exc" else "")
        ops.append(d)
    return {"run_seed": plan.get("run_seed"), "models": models, "swarm": plan.get("swarm"), "ops": ops}
