"""Start incarnations (fresh interpreters) and collect their reports."""

from __future__ import annotations

import os
import pickle
import shutil
import subprocess
import tempfile

HERE = os.path.dirname(os.path.abspath(__file__))
PYTHON = os.environ.get("DSIM_PYTHON", "/venv/bin/python")


def lcm_src() -> str:
    return os.path.realpath(os.environ.get("LCM_SRC", "/repo/src"))


def scratch_root() -> str:
    root = os.environ.get("DSIM_SCRATCH") or os.path.join(tempfile.gettempdir(), "dsim-scratch")
    os.makedirs(root, exist_ok=True)
    return root


class IncarnationFailure(Exception):
    """The incarnation did not deliver a report (hang, crash of the interpreter)."""


def run_incarnation(plan: dict, hashseed: int, timeout_s: int = 600, xla_cache: str | None = None, disk: str | None = None) -> dict:
    """``disk``: the simulated durable file system of the session (home directory, temp directory and
    working directory of the interpreter): whatever the code under test writes there survives a restart,
    nothing else does; it is created empty for every session."""
    d = tempfile.mkdtemp(prefix="inc-", dir=scratch_root())
    try:
        plan = dict(plan)
        plan["lcm_src"] = lcm_src()
        plan.setdefault("watchdog_s", max(60, timeout_s - 30))
        pp, rp = os.path.join(d, "plan.pkl"), os.path.join(d, "report.pkl")
        with open(pp, "wb") as fh:
            pickle.dump(plan, fh, protocol=4)
        env = {
            "PATH": os.environ.get("PATH", "/usr/bin:/bin"),
            "HOME": os.path.join(disk, "home") if disk else os.environ.get("HOME", "/root"),
            "PYTHONHASHSEED": str(hashseed),
            "PYTHONPATH": plan["lcm_src"],
            "JAX_PLATFORMS": "cpu",
            "XLA_FLAGS": "--xla_cpu_multi_thread_eigen=false intra_op_parallelism_threads=1",
            "OMP_NUM_THREADS": "1",
            "OPENBLAS_NUM_THREADS": "1",
            "MKL_NUM_THREADS": "1",
            "PYTHONDONTWRITEBYTECODE": "1",
            "PYTHONFAULTHANDLER": "1",
            "TF_CPP_MIN_LOG_LEVEL": "3",
        }
        # XLA executables compiled earlier in the same session (lcm wraps new jax.jit objects around identical
        # computations in every call and period) are re-used across the incarnations of the session
        if disk:
            for sub in ("home", "tmp", "cwd"):
                os.makedirs(os.path.join(disk, sub), exist_ok=True)
            env["TMPDIR"] = os.path.join(disk, "tmp")
        cc = xla_cache if os.environ.get("DSIM_XLA_CACHE", "on") != "off" else None
        if cc:
            env.update({"JAX_COMPILATION_CACHE_DIR": cc, "JAX_PERSISTENT_CACHE_MIN_COMPILE_TIME_SECS": "0", "JAX_PERSISTENT_CACHE_MIN_ENTRY_SIZE_BYTES": "0"})
        dbg = os.environ.get("DSIM_DEBUG_IDS")  # diagnostics for the harness author only
        if dbg:
            env["DSIM_DEBUG_IDS"] = dbg
        errp = os.path.join(d, "stderr.txt")
        with open(errp, "wb") as ef:
            try:
                cp = subprocess.run(  # noqa: S603
                    [PYTHON, os.path.join(HERE, "_inc_main.py"), pp, rp],
                    env=env,
                    stdout=ef,
                    stderr=subprocess.STDOUT,
                    timeout=timeout_s,
                    check=False,
                    cwd=os.path.join(disk, "cwd") if disk else d,
                )
                rc = cp.returncode
            except subprocess.TimeoutExpired:
                rc = "timeout"
        if dbg:
            with open(errp, "rb") as ef, open(dbg, "ab") as out:
                out.write(ef.read())
        if not os.path.exists(rp):
            with open(errp, "rb") as ef:
                tail = ef.read()[-6000:].decode("utf-8", "replace")
            raise IncarnationFailure(f"no report (exit={rc}); stderr tail:\n{tail}")
        with open(rp, "rb") as fh:
            report = pickle.load(fh)  # noqa: S301
        report["exit"] = rc
        if not report.get("ok"):
            with open(errp, "rb") as ef:
                report["stderr_tail"] = ef.read()[-3000:].decode("utf-8", "replace")
        return report
    finally:
        shutil.rmtree(d, ignore_errors=True)
