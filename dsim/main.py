"""Driver of the checks:  ./check <property> --tier quick|thorough | --replay <file>

exit 0  the property held on everything explored (KNOWN-FINDING lines allowed)
exit 1  a violation that /verif/known_findings.jsonl does not list: VIOLATION property=<id> replay=<path>
exit 3  harness error (deadlock, watchdog, lost incarnation, nondeterministic replay) - never a VIOLATION
"""

from __future__ import annotations

import argparse
import concurrent.futures as cf
import json
import multiprocessing as mp
import os
import sys
import time
import traceback

VERIF = os.path.dirname(os.path.dirname(os.path.abspath(__file__)))
PROPS = ("C03", "C04", "C06", "C08", "C09")

TIERS = {
    # runs, wall cap for submitting new runs (s), determinism re-executions
    "quick": {"C09": (50, 240, 2), "C03": (50, 240, 2), "C04": (24, 240, 1), "C06": (50, 240, 2), "C08": (50, 240, 2)},
    "thorough": {"C09": (900, 2100, 6), "C03": (900, 1800, 6), "C04": (480, 2100, 4), "C06": (900, 1800, 6), "C08": (900, 1800, 6)},
}


def run_seed_for(verif_seed: int, prop: str, i: int) -> int:
    return (verif_seed * 1_000_003 + i * 7919 + sum(ord(c) for c in prop) * 104_729) % (2**31 - 1)


def _one_run(args):
    prop, run_seed, tier = args
    sys.path.insert(0, VERIF)
    from dsim import controller, plans

    try:
        plan = plans.make_run_plan(run_seed, prop, tier)
        rep = controller.execute_run(plan)
        rep["plan_for_replay"] = plan if (rep["violations"] or rep["harness_error"]) else None
        return rep
    except Exception as e:  # noqa: BLE001
        return {"run_seed": run_seed, "harness_error": f"controller crashed: {e!r}\n{traceback.format_exc()}", "violations": [], "stats": {}, "event_digest": None, "wall_s": 0, "sample": None}


def load_known_findings():
    path = os.path.join(VERIF, "known_findings.jsonl")
    out = []
    if os.path.exists(path):
        with open(path) as fh:
            for line in fh:
                line = line.strip()
                if line and not line.startswith("#"):
                    out.append(json.loads(line))
    return out


def match_known(v, known):
    for k in known:
        if k.get("status") == "fixed":
            continue  # a fixed entry suppresses nothing
        if k.get("property") == v["property"] and k.get("finding_key") and k["finding_key"] in v["finding_key"]:
            return k
    return None


def main(argv=None):
    ap = argparse.ArgumentParser()
    ap.add_argument("prop", choices=PROPS)
    ap.add_argument("--tier", default=os.environ.get("VERIF_TIER", "quick"), choices=["quick", "thorough"])
    ap.add_argument("--replay")
    ap.add_argument("--runs", type=int)
    ap.add_argument("--cap-s", type=int)
    ap.add_argument("--jobs", type=int, default=int(os.environ.get("DSIM_JOBS", "0")) or min(16, os.cpu_count() or 4))
    ap.add_argument("--no-minimise", action="store_true")
    ap.add_argument("--no-evidence", action="store_true")
    a = ap.parse_args(argv)
    sys.path.insert(0, VERIF)
    if a.replay:
        from dsim import replay

        return replay.replay_file(a.prop, a.replay)

    verif_seed = int(os.environ.get("VERIF_SEED", "0"))
    n_runs, cap_s, n_det = TIERS[a.tier][a.prop]
    if a.runs:
        n_runs = a.runs
    if a.cap_s:
        cap_s = a.cap_s
    print(f"dsim check property={a.prop} tier={a.tier} VERIF_SEED={verif_seed} runs<={n_runs} cap={cap_s}s jobs={a.jobs} lcm_src={os.environ.get('LCM_SRC', '/repo/src')}", flush=True)
    t0 = time.time()
    seeds = [run_seed_for(verif_seed, a.prop, i) for i in range(n_runs)]
    # determinism self-test: the first n_det run seeds are executed twice
    jobs = [(a.prop, s, a.tier) for s in seeds[:n_det]] + [(a.prop, s, a.tier) for s in seeds]
    reports = []
    det_first = {}
    harness_errors = []
    nondeterministic = []
    submitted = 0
    ctx = mp.get_context("fork")
    with cf.ProcessPoolExecutor(max_workers=a.jobs, mp_context=ctx) as ex:
        pending = set()
        it = iter(enumerate(jobs))
        exhausted = False
        while True:
            while not exhausted and len(pending) < a.jobs:
                if time.time() - t0 > cap_s and submitted >= min(len(jobs), n_det * 2 + 4):
                    exhausted = True
                    break
                try:
                    idx, job = next(it)
                except StopIteration:
                    exhausted = True
                    break
                fut = ex.submit(_one_run, job)
                fut.idx = idx
                pending.add(fut)
                submitted += 1
            if not pending:
                break
            done, pending = cf.wait(pending, return_when=cf.FIRST_COMPLETED)
            for fut in done:
                try:
                    rep = fut.result()
                except Exception as e:  # noqa: BLE001
                    rep = {"run_seed": None, "harness_error": f"pool: {e!r}", "violations": [], "stats": {}, "event_digest": None, "wall_s": 0, "sample": None}
                if rep.get("oracle_errors") and not rep.get("harness_error"):
                    # a crashed oracle is a harness error of its own; what the other oracles found still counts
                    harness_errors.append({"run_seed": rep.get("run_seed"), "harness_error": "; ".join(rep["oracle_errors"])})
                if rep.get("harness_error"):
                    harness_errors.append(rep)
                    continue
                if fut.idx < n_det:
                    det_first[rep["run_seed"]] = rep["event_digest"]
                    continue  # the duplicate execution only serves the determinism test
                reports.append(rep)
    # determinism verdict
    for rep in reports:
        d = det_first.get(rep["run_seed"])
        if d is not None and d != rep["event_digest"]:
            nondeterministic.append((rep["run_seed"], d, rep["event_digest"]))
    wall = time.time() - t0

    known = load_known_findings()
    mine = []
    others = []
    for rep in reports:
        for v in rep["violations"]:
            (mine if v["property"] == a.prop else others).append((rep, v))
    new_viol, known_hits = [], {}
    for rep, v in mine:
        k = match_known(v, known)
        if k:
            known_hits.setdefault(k["finding_key"], (k, rep, v))
        else:
            new_viol.append((rep, v))

    exit_code = 0
    for key, (k, rep, v) in known_hits.items():
        print(f"KNOWN-FINDING: property={a.prop} {k.get('what', key)} (seen again: run_seed={rep['run_seed']})")
    replay_path = None
    if new_viol:
        rep, v = new_viol[0]
        from dsim import replay

        replay_path = replay.write_replay(a.prop, rep, v, minimise=not a.no_minimise)
        for _rep, vv in new_viol[:5]:
            print(f"  violation class={vv['class']} run_seed={_rep['run_seed']}: {vv['detail'][:600]}")
        print(f"VIOLATION property={a.prop} replay={replay_path}")
        exit_code = 1
    for rep, v in others[:3]:
        print(f"NOTE: oracle of another property fired inside this check (not reported here): {v['property']} {v['class']} run_seed={rep['run_seed']}")

    if harness_errors or nondeterministic:
        for he in harness_errors[:3]:
            print(f"HARNESS-ERROR run_seed={he.get('run_seed')}: {str(he['harness_error'])[:1500]}")
        for nd in nondeterministic[:3]:
            print(f"HARNESS-ERROR nondeterministic event log for run_seed={nd[0]}: {nd[1]} vs {nd[2]}")
        # harness errors never mask a violation, and never count as a pass
        tolerated = len(harness_errors) <= max(1, len(reports) // 50) and not nondeterministic
        if exit_code == 0 and not tolerated:
            exit_code = 3

    if not a.no_evidence:
        from dsim import evidence

        evidence.write(a.prop, a.tier, verif_seed, reports, harness_errors, nondeterministic, wall, len(new_viol), known_hits, det_checked=len(det_first))
    n_ops = sum(r["stats"].get("ops", 0) for r in reports)
    print(f"done property={a.prop} runs={len(reports)} ops={n_ops} violations={len(new_viol)} known={len(known_hits)} harness_errors={len(harness_errors)} wall={wall:.0f}s exit={exit_code}")
    return exit_code


if __name__ == "__main__":
    sys.exit(main())
