"""Replay files, minimisation (DESIGN 3.5)."""

from __future__ import annotations

import copy
import json
import os
import time

VERIF = os.path.dirname(os.path.dirname(os.path.abspath(__file__)))


def _has(rep, prop, cls):
    return any(v["property"] == prop and v["class"] == cls for v in rep.get("violations", []))


def _first(rep, prop, cls):
    for v in rep.get("violations", []):
        if v["property"] == prop and v["class"] == cls:
            return v
    return None


def _drop_ops(plan, drop_ids):
    """Remove operations (and, transitively, their consumers)."""
    p = copy.deepcopy(plan)
    drop = set(drop_ids)
    changed = True
    while changed:
        changed = False
        for inc in p["incarnations"]:
            for ph in inc["phases"]:
                for op in ph["ops"]:
                    if op["id"] in drop:
                        continue
                    deps = set(op.get("needs", []))
                    if op.get("vsrc"):
                        deps.add(op["vsrc"][1])
                    if op.get("src") is not None:
                        deps.add(op["src"])
                    if deps & drop:
                        drop.add(op["id"])
                        changed = True
    # handles whose BUILD is dropped: drop the ops that use them (unless another BUILD of that handle stays)
    for inc in p["incarnations"]:
        built = {}
        for ph in inc["phases"]:
            for op in ph["ops"]:
                if op["kind"] == "BUILD" and op["id"] not in drop:
                    built[op["handle"]] = True
        for ph in inc["phases"]:
            for op in ph["ops"]:
                if op["kind"] in ("SOLVE", "SIMULATE") and op["handle"] not in built:
                    drop.add(op["id"])
    # LOADs of keys that are no longer stored
    for inc in p["incarnations"]:
        for ph in inc["phases"]:
            ph["ops"] = [op for op in ph["ops"] if op["id"] not in drop]
    return p


def minimise(prop, plan, schedule, violation, budget_s=480, max_exec=40):
    """Greedy reduction keeping the same (property, class).  Returns (plan, schedule, report, log)."""
    from dsim import controller

    cls = violation["class"]
    log = []
    t0 = time.time()
    n_exec = 0
    best_plan, best_sched = plan, schedule
    best_rep = None

    def attempt(cand_plan, cand_sched, what):
        nonlocal n_exec, best_plan, best_sched, best_rep
        if time.time() - t0 > budget_s or n_exec >= max_exec:
            return False
        n_exec += 1
        try:
            rep = controller.execute_run(cand_plan, schedule=cand_sched)
        except Exception as e:  # noqa: BLE001
            log.append(f"{what}: harness exception {e!r}")
            return False
        ok = rep.get("harness_error") is None and _has(rep, prop, cls)
        log.append(f"{what}: {'kept' if ok else 'rejected'}")
        if ok:
            best_plan, best_sched, best_rep = cand_plan, cand_sched, rep
        return ok

    # 1. one worker, run-to-completion schedule
    p = copy.deepcopy(best_plan)
    for inc in p["incarnations"]:
        for ph in inc["phases"]:
            ph["n_workers"] = 1
            for op in ph["ops"]:
                op["worker"] = 0
    attempt(p, [[] for _ in p["incarnations"]], "single worker, run to completion")
    # 2. no faults
    p = copy.deepcopy(best_plan)
    nf = 0
    for inc in p["incarnations"]:
        for ph in inc["phases"]:
            for op in ph["ops"]:
                nf += len(op.get("faults", []))
                op.pop("faults", None)
    if nf:
        if not attempt(p, best_sched, "all faults removed"):
            # one at a time
            for inc_i, inc in enumerate(best_plan["incarnations"]):
                for ph_i, ph in enumerate(inc["phases"]):
                    for op_i, op in enumerate(ph["ops"]):
                        if op.get("faults"):
                            q = copy.deepcopy(best_plan)
                            q["incarnations"][inc_i]["phases"][ph_i]["ops"][op_i].pop("faults", None)
                            attempt(q, best_sched, f"faults of op {op['id']} removed")
    # 3. drop the second incarnation / whole phases
    if len(best_plan["incarnations"]) > 1:
        p = copy.deepcopy(best_plan)
        p["incarnations"] = p["incarnations"][:1]
        attempt(p, best_sched[:1] if best_sched else best_sched, "restart removed")
    for name in ("quiescent", "chaos"):
        ids = [op["id"] for inc in best_plan["incarnations"] for ph in inc["phases"] if ph["name"] == name for op in ph["ops"]]
        if ids:
            attempt(_drop_ops(best_plan, ids), best_sched, f"phase {name} emptied")
    # 4. ddmin over the remaining non-BUILD operations
    def removable(pl):
        return [op["id"] for inc in pl["incarnations"] for ph in inc["phases"] for op in ph["ops"] if op["kind"] != "BUILD"]

    chunk = max(1, len(removable(best_plan)) // 2)
    while chunk >= 1 and time.time() - t0 < budget_s and n_exec < max_exec:
        ids = removable(best_plan)
        progressed = False
        for i in range(0, len(ids), chunk):
            part = ids[i : i + chunk]
            if attempt(_drop_ops(best_plan, part), best_sched, f"dropped ops {part}"):
                progressed = True
                break
        if not progressed:
            chunk //= 2
    # 5. unused builds
    used = {op["handle"] for inc in best_plan["incarnations"] for ph in inc["phases"] for op in ph["ops"] if op["kind"] in ("SOLVE", "SIMULATE")}
    ids = [op["id"] for inc in best_plan["incarnations"] for ph in inc["phases"] for op in ph["ops"] if op["kind"] == "BUILD" and op["handle"] not in used]
    if ids:
        attempt(_drop_ops(best_plan, ids), best_sched, "unused builds dropped")
    # 6. smaller batches
    for bid, b in list(best_plan["batches"].items()):
        ag = b["agents"]
        if isinstance(ag, list) and len(ag) > 2 and "~" not in bid:
            p = copy.deepcopy(best_plan)
            half = p["batches"][bid]["agents"][: max(1, len(ag) // 2)]
            for k, bb in p["batches"].items():
                if bb.get("content") == bid:
                    bb["agents"] = half
            attempt(p, best_sched, f"batch {bid} halved")
    return best_plan, best_sched, best_rep, log


def write_replay(prop, rep, violation, minimise=True):
    from dsim import controller

    os.makedirs(os.path.join(VERIF, "replays"), exist_ok=True)
    plan = rep["plan_for_replay"]
    schedule = rep.get("decisions")
    log = []
    final_v = violation
    if minimise and plan is not None:
        try:
            mplan, msched, mrep, log = _min(prop, plan, schedule, violation)
            if mrep is not None:
                # the minimised file must reproduce in a fresh execution before it is reported
                chk = controller.execute_run(mplan, schedule=msched)
                if chk.get("harness_error") is None and _has(chk, prop, violation["class"]):
                    plan, schedule = mplan, msched
                    final_v = _first(chk, prop, violation["class"])
                else:
                    log.append("minimised plan did not reproduce in a fresh execution; original plan kept")
        except Exception as e:  # noqa: BLE001
            log.append(f"minimisation failed: {e!r}")
    path = os.path.join(VERIF, "replays", f"{prop}-seed{rep['run_seed']}-{violation['class']}.json")
    with open(path, "w") as fh:
        json.dump(
            {
                "property": prop,
                "class": violation["class"],
                "run_seed": rep["run_seed"],
                "violation": {k: final_v[k] for k in ("property", "class", "op", "detail", "finding_key")},
                "minimisation_log": log,
                "schedule": schedule,
                "plan": plan,
            },
            fh,
        )
    return path


def _min(prop, plan, schedule, violation):
    return minimise(prop, plan, schedule, violation)


def replay_file(prop, path):
    from dsim import controller

    with open(path) as fh:
        doc = json.load(fh)
    rep = controller.execute_run(doc["plan"], schedule=doc.get("schedule"))
    if rep.get("harness_error"):
        print(f"HARNESS-ERROR during replay: {rep['harness_error'][:1500]}")
        return 3
    v = _first(rep, doc["property"], doc["class"])
    if v is not None:
        print(f"  reproduced class={v['class']}: {v['detail'][:800]}")
        print(f"VIOLATION property={doc['property']} replay={path}")
        return 1
    others = [(x["property"], x["class"]) for x in rep.get("violations", [])]
    print(f"replay of {path}: violation class {doc['class']} did not recur (other violations: {others})")
    return 0
