"""dsim - deterministic session simulator for OpenSourceEconomics/lcm (see /verif/DESIGN.md)."""
