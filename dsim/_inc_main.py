"""Launcher of an incarnation (kept separate so that dsim.incarnation is imported once)."""
import os
import sys

sys.path.insert(0, os.path.dirname(os.path.dirname(os.path.abspath(__file__))))

from dsim.incarnation import main  # noqa: E402

if __name__ == "__main__":
    main(sys.argv)
