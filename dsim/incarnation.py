"""One incarnation = one real interpreter running real lcm code under the simulated scheduler.

Invoked as ``python /verif/dsim/_inc_main.py <plan.pkl> <report.pkl>`` by the controller.
The plan (a dict, see controller.py) lists models, parameter sets, batches, the durable
store, phases of operations assigned to workers, the scheduling decision source and the
faults.  The report contains per-operation records (status, result arrays, snapshots,
faults fired, seam records), the event log and the reach probes.
"""

from __future__ import annotations

import errno
import faulthandler
import gc
import hashlib
import logging
import os
import pickle
import random
import sys
import threading
import traceback

import numpy as np

from dsim import bootstrap, catalogue
from dsim.scheduler import DecisionSource, HarnessError, Scheduler, SimCancelled


class InjectedCallbackError(Exception):
    """Raised by a catalogue function when the simulator injects a callback fault."""


# ======================================================================================
# helpers: digests, snapshots, conversions
# ======================================================================================


def _arr_bytes(a) -> bytes:
    a = np.asarray(a)
    if a.dtype == object:  # e.g. a None inside a value list: tobytes() would hash pointers
        return b"object" + str(a.shape).encode() + repr(a.tolist()).encode()
    return str(a.dtype).encode() + str(a.shape).encode() + np.ascontiguousarray(a).tobytes()


def digest_solution(vf_list) -> str:
    h = hashlib.sha256()
    for a in vf_list:
        h.update(_arr_bytes(a))
    return h.hexdigest()[:24]


def frame_to_dict(df) -> dict:
    cols = list(df.columns)
    data = {c: np.asarray(df[c].to_numpy()) for c in cols}
    idx = df.index
    return {
        "columns": cols,
        "data": data,
        "index_names": list(idx.names),
        "index": [np.asarray(idx.get_level_values(i)) for i in range(idx.nlevels)],
        "dtypes": {c: str(df[c].dtype) for c in cols},
    }


def digest_frame(fd: dict) -> str:
    h = hashlib.sha256()
    for c in sorted(fd["columns"]):
        a = fd["data"][c]
        if np.issubdtype(a.dtype, np.integer) or a.dtype == bool:
            a = a.astype(np.int64)
        else:
            a = a.astype(np.float64)
        h.update(c.encode())
        h.update(_arr_bytes(a))
    for lv in fd["index"]:
        h.update(_arr_bytes(np.asarray(lv).astype(np.int64)))
    return h.hexdigest()[:24]


def snap(obj, depth=0):
    """Structural snapshot of a caller-owned object (content, order, identities of leaves)."""
    if isinstance(obj, dict):
        # identities too: replacing a nested container or a leaf object of the caller's dict by an
        # equal copy is a modification of the caller's object
        return ("dict", tuple((k, id(v), snap(v, depth + 1)) for k, v in obj.items()))
    if isinstance(obj, (list, tuple)):
        return (type(obj).__name__, tuple((id(v), snap(v, depth + 1)) for v in obj))
    if obj is None or isinstance(obj, (bool, int, float, str)):
        return (type(obj).__name__, obj if obj == obj else "nan")
    try:
        a = np.asarray(obj)
        if a.dtype == object:
            return (type(obj).__name__, "object", a.shape, repr(a.tolist()))
        return (type(obj).__name__, str(a.dtype), a.shape, hashlib.sha256(np.ascontiguousarray(a).tobytes()).hexdigest()[:16])
    except Exception:  # noqa: BLE001
        return (type(obj).__name__, id(obj))


def snap_model(model):
    if model is None:
        return None
    fn = []
    for k, f in model.functions.items():
        d = getattr(f, "__dict__", {})
        fn.append((k, id(f), tuple(sorted((kk, id(vv)) for kk, vv in d.items()))))

    def g(grids):
        out = []
        for k, v in grids.items():
            if hasattr(v, "codes"):
                out.append((k, "disc", tuple(v.codes), tuple(v.categories)))
            else:
                out.append((k, type(v).__name__, v.start, v.stop, v.n_points))
        return tuple(out)

    return (model.n_periods, model.description, tuple(fn), g(model.states), g(model.choices))


def describe_template(t):
    if isinstance(t, dict):
        return {k: describe_template(v) for k, v in t.items()}
    a = np.asarray(t)
    if a.shape == ():
        return "nan" if np.isnan(a) else float(a)
    return ["array", list(a.shape), bool(np.isnan(a).all())]


# ======================================================================================
# the incarnation
# ======================================================================================


class Incarnation:
    def __init__(self, plan: dict):
        self.plan = plan
        self.lcm_src = os.path.realpath(plan.get("lcm_src") or "/repo/src")
        self.event_log: list = []
        self.records: dict = {}  # op id -> record
        self.handles: dict = {}
        self.models: dict = {}  # mid -> (model, fns, meta)
        self.params_objs: dict = {}
        self.params_refs: dict = {}
        self.batch_objs: dict = {}
        self.vf_objs: dict = {}  # op id -> list as returned by lcm / loaded
        self.vf_np_objs: dict = {}
        self.vf_np_src: dict = {}  # caller-owned value list -> id of the operation whose arrays it currently holds
        self.store: dict = dict(plan.get("store") or {})
        self.prefetched: dict = {}  # op id -> params object built right after the previous call of a tight loop
        self.kept: list = []  # (op id, object, digest fn) results kept alive to re-digest later
        self.spy_records: list = []
        self.spy_mode = plan.get("spy", "off")
        self.seam = {"random_choice": False, "vmapped": False}
        self.build_lock_names = set()
        self.phase = None

    # ---------------------------------------------------------------- boot
    def boot(self):
        bootstrap.boot(self.lcm_src if self.lcm_src != "/repo/src" else None)
        if self.lcm_src != "/repo/src":
            # make sure the requested tree is the one that gets imported
            sys.path.insert(0, self.lcm_src)
        import jax
        import jax.numpy as jnp
        import lcm
        from lcm.entry_point import get_lcm_function

        self.jax, self.jnp, self.lcm = jax, jnp, lcm
        self.get_lcm_function = get_lcm_function
        lcm_file = os.path.realpath(lcm.__file__)
        if not lcm_file.startswith(self.lcm_src):
            raise HarnessError(f"lcm imported from {lcm_file}, expected under {self.lcm_src}")
        self.lcm_dir = os.path.dirname(lcm_file) + os.sep

        sched_cfg = self.plan["sched"]
        rng = random.Random(sched_cfg["seed"])
        dec = DecisionSource(rng, sched_cfg["quanta"], sched_cfg["weights"], replay=sched_cfg.get("decisions"))
        write_p = float(sched_cfg.get("write_p", 0.0))
        write_sites = {}
        if write_p > 0:
            from dsim import sharedwrites

            write_sites = sharedwrites.scan_tree(self.lcm_dir)
        self.sched = Scheduler(
            dec, self._is_traced_code, self.event_log, step_cap=self.plan.get("step_cap", 400_000),
            write_sites=write_sites, write_p=write_p,
        )
        bootstrap.STATE["sched"] = self.sched

        # log sink owned by the simulator; the level of the logger is left to lcm
        self.handler = SimLogHandler(self)
        logging.getLogger("lcm").addHandler(self.handler)

        self._install_randomness_seam()

    def _is_traced_code(self, code) -> bool:
        fn = code.co_filename
        return fn.startswith(self.lcm_dir) or fn.startswith(catalogue.CAT_FILENAME_PREFIX)

    # ---------------------------------------------------------------- randomness seam (S4)
    def _install_randomness_seam(self):
        if self.spy_mode == "off":
            return
        jax, jnp = self.jax, self.jnp
        try:
            import lcm.next_state as ns
            import lcm.random_choice as rc
        except Exception:  # noqa: BLE001
            return
        inc = self

        def key_data(k):
            try:
                if jnp.issubdtype(k.dtype, jax.dtypes.prng_key):
                    return jax.random.key_data(k)
            except Exception:  # noqa: BLE001
                pass
            return k

        real_rc = getattr(ns, "random_choice", None)
        if callable(real_rc):
            self.seam["random_choice"] = True
            if self.spy_mode == "spy":

                def spy_random_choice(key, probs, labels):
                    out = real_rc(key=key, probs=probs, labels=labels)

                    def rec(kd, p, lab, o):
                        inc.spy_records.append(
                            {"kind": "rc", "key": np.asarray(kd), "probs": np.asarray(p), "labels": np.asarray(lab), "out": np.asarray(o)}
                        )

                    jax.debug.callback(rec, key_data(key), probs, labels, out, ordered=True)
                    return out

                ns.random_choice = spy_random_choice
            elif self.spy_mode == "scripted":
                script_seed = int(self.plan.get("script_seed", 0))
                from jax.experimental import io_callback

                def scripted_random_choice(key, probs, labels):
                    def host(kd, p):
                        kd = np.asarray(kd).astype(np.uint64).ravel()
                        p = np.asarray(p, dtype=np.float64)
                        g = np.random.default_rng([script_seed, *[int(x) for x in kd]])
                        n, L = p.shape
                        u = g.random(n)
                        v = g.random(n)
                        pos = p > 0
                        # rarest positive label with prob 1/2, else uniform among positive labels
                        masked = np.where(pos, p, np.inf)
                        rare = masked.argmin(axis=1)
                        cnt = pos.sum(axis=1)
                        kth = np.minimum((v * cnt).astype(np.int64), cnt - 1)
                        order = np.argsort(~pos, axis=1, kind="stable")  # positive labels first
                        unif = order[np.arange(n), kth]
                        idx = np.where(u < 0.5, rare, unif).astype(np.int32)
                        inc.spy_records.append({"kind": "script", "key": kd.copy(), "probs": p.copy(), "idx": idx.copy()})
                        return idx

                    idx = io_callback(
                        host, jax.ShapeDtypeStruct((probs.shape[0],), jnp.int32), key_data(key), probs, ordered=True
                    )
                    return labels[idx]

                ns.random_choice = scripted_random_choice
        real_v = getattr(rc, "_vmapped_random_choice", None)
        if callable(real_v) and self.spy_mode == "spy":
            self.seam["vmapped"] = True

            def spy_vmapped(keys, probs, labels):
                def rec(kd):
                    inc.spy_records.append({"kind": "vrc", "keys": np.asarray(kd)})

                jax.debug.callback(rec, key_data(keys), ordered=True)
                return real_v(keys, probs, labels)

            rc._vmapped_random_choice = spy_vmapped

    # ---------------------------------------------------------------- objects owned by the caller
    def get_model(self, mid):
        if mid not in self.models:
            recipe = self.plan["models"][mid]
            fns, meta = catalogue.compile_functions(
                recipe, self.jnp, hit=self._hit, stochastic_deco=self.lcm.mark.stochastic
            )
            model = catalogue.build_model(recipe, fns, self.lcm)
            self.models[mid] = (model, fns, meta)
        return self.models[mid]

    def _leaf(self, x, leaf, arr_dtype="float64"):
        if leaf == "np_rov":
            # a READ-ONLY numpy view of memory the caller keeps writing to (a row of a parameter table, a
            # column of a DataFrame, np.broadcast_to(...)): the view cannot be written through, its base can
            if isinstance(x, list):
                base = np.array(x, dtype=np.dtype(arr_dtype))
                v = base.view()
            else:
                base = np.array([x, 0.0], dtype=np.float64)
                v = base[0:1].reshape(())
            v.flags.writeable = False
            return v
        if isinstance(x, list):
            a = np.array(x, dtype=np.dtype(arr_dtype))
            return self.jnp.array(a) if leaf in ("jax", "float", "int", "jaxint") else a
        if leaf in ("int", "npint", "jaxint"):
            # integer-valued parameters written the way users write them (wage=2, k=1); other
            # values of the same set stay floats of the corresponding family
            if float(x).is_integer():
                return int(x) if leaf == "int" else (np.int64(int(x)) if leaf == "npint" else self.jnp.array(int(x)))
            leaf = {"int": "float", "npint": "np", "jaxint": "jax"}[leaf]
        if leaf == "float":
            return float(x)
        if leaf == "np":
            return np.float64(x)
        if leaf == "np0d":
            return np.array(x, dtype=np.float64)
        return self.jnp.array(x, dtype=self.jnp.float64)

    def _build_params(self, values, leaf, arr_dtype="float64"):
        if isinstance(values, dict):
            return {k: self._build_params(v, leaf, arr_dtype) for k, v in values.items()}
        return self._leaf(values, leaf, arr_dtype)

    def get_params_obj(self, op):
        if op["id"] in self.prefetched:
            return self.prefetched.pop(op["id"])
        if op.get("transient") and not op.get("pobj"):
            return self._make_transient_params(op["params"], op.get("leaf", "float"), op["transient"])
        key = op.get("pobj") or f"auto:{op['params']}:{op.get('leaf', 'float')}:{op.get('pshuffle', 0)}"
        if key not in self.params_objs:
            vals = self.plan["params"][op["params"]]["values"]
            if op.get("pshuffle") and not op.get("pobj"):
                vals = _shuffled_keys(vals, random.Random(op["pshuffle"]))  # same content, keys inserted in another order
            obj = self._build_params(vals, op.get("leaf", "float"), self.plan["params"][op["params"]].get("shocks_dtype", "float64"))
            if op.get("pshuffle") and op["pshuffle"] % 3 == 0 and not op.get("pobj"):
                # ... and the per-function entries as collections.OrderedDict (written in signature order, say)
                import collections

                obj = {k: (collections.OrderedDict(v) if isinstance(v, dict) and k != "shocks" else v) for k, v in obj.items()}
            self.params_objs[key] = obj
            # the caller keeps its own references to the nested containers it built
            self.params_refs[key] = {k: v for k, v in obj.items() if isinstance(v, dict)}
        return self.params_objs[key]

    def _make_transient_params(self, pid, leaf, mode):
        if True:
            # built for one call only and dropped right after it: its memory (and its id()) is
            # handed to the next object the caller builds
            vals = self.plan["params"][pid]["values"]
            sdt = self.plan["params"][pid].get("shocks_dtype", "float64")
            if mode == "template":
                # the criterion-function idiom: copy.deepcopy(base) and replace what this evaluation
                # changes by freshly created numbers - unchanged leaves are the very same objects in
                # every evaluation, changed ones live only for the call
                import copy

                base_pid = sorted(p for p, v in self.plan["params"].items() if v["model"] == self.plan["params"][pid]["model"])[0]
                bvals = self.plan["params"][base_pid]["values"]
                bkey = ("template", base_pid, leaf)
                if bkey not in self.params_objs:
                    self.params_objs[bkey] = self._build_params(bvals, leaf, self.plan["params"][base_pid].get("shocks_dtype", "float64"))
                obj = copy.deepcopy(self.params_objs[bkey])

                def patch(o, v, bv):
                    for k in v:
                        if isinstance(v[k], dict):
                            patch(o[k], v[k], bv[k])
                        elif v[k] != bv[k]:
                            x = self._leaf(v[k], leaf, sdt)
                            o[k] = (x + 0.0) if type(x) is float else x  # a new float object, as arithmetic yields
                    return o

                return patch(obj, vals, bvals)
            return self._build_params(vals, leaf, sdt)

    def resolve_batch(self, bid, form):
        b = self.plan["batches"][bid]
        recipe = self.plan["models"][b["model"]]
        model, _, _ = self.get_model(b["model"])
        out = {}
        agents = catalogue.expand_agents(recipe, b["agents"])
        for nm in b["key_order"]:
            if nm in ("a", "b"):
                grid = np.asarray(model.states[nm].to_jax())
                arr = np.array([grid[ag[nm][1]] if ag[nm][0] == "n" else ag[nm][1] for ag in agents], dtype=np.float64)
                if nm == "a" and b.get("a_dtype", "float64") != "float64":
                    arr = arr.astype(np.dtype(b["a_dtype"]))
            else:
                arr = np.array([ag[nm] for ag in agents], dtype=np.dtype(b.get("int_dtype", "int64")))
            out[nm] = self.jnp.array(arr) if form == "jax" else _layout(arr, form)
        assert set(out) == set(recipe["states_order"])
        return out

    def get_batch_obj(self, op):
        if op.get("transient") and not op.get("bobj"):
            return self.resolve_batch(op["batch"], op.get("bform", "np"))
        key = op.get("bobj") or f"auto:{op['batch']}:{op.get('bform', 'np')}"
        if key not in self.batch_objs:
            self.batch_objs[key] = self.resolve_batch(op["batch"], op.get("bform", "np"))
        return self.batch_objs[key]

    # ---------------------------------------------------------------- fault plumbing
    def _hit(self, name):
        w = self.sched.current()
        if w is None or w.opctx is None:
            return
        ctx = w.opctx
        c = ctx["hits"].get(name, 0) + 1
        ctx["hits"][name] = c
        for f in ctx["faults"]:
            if f["kind"] == "callback_raise" and f["fn"] == name and f["k"] == c and not f.get("_fired"):
                f["_fired"] = True
                ctx["faults_fired"].append(["callback_raise", name, c])
                self.event_log.append(("fault", "callback_raise", w.id, ctx["id"], name, c))
                raise InjectedCallbackError(f"injected failure in model function {name} (invocation {c})")

    # ---------------------------------------------------------------- operations
    def execute_op(self, w, op):
        sched = self.sched
        ctx = {
            "id": op["id"],
            "faults": [dict(f) for f in op.get("faults", [])],
            "faults_fired": [],
            "hits": {},
            "log_records": 0,
        }
        rec = {
            "id": op["id"],
            "kind": op["kind"],
            "worker": w.id,
            "phase": self.phase,
            "status": None,
            "faults_fired": ctx["faults_fired"],
        }
        self.records[op["id"]] = rec
        # dependencies on results of other operations
        for dep in op.get("needs", []):
            if dep not in sched.done_ops:
                sched.wait_for_op(w, dep)
        w.opctx = ctx
        w.op_events = 0
        w.cancel_at = None
        for f in ctx["faults"]:
            if f["kind"] == "cancel":
                w.cancel_at = f["n"]
        self.event_log.append(("op_start", w.id, op["id"], op["kind"]))
        spy_from = len(self.spy_records)
        import time as _time  # diagnostics only: never enters the event log or any decision

        _t0 = _time.perf_counter()
        try:
            result = self._dispatch(op, rec)
            rec["status"] = "ok"
            if result is not None:
                rec["result"] = result
        except HarnessError:
            raise
        except SimCancelled as e:
            rec["status"] = "exc"
            rec["exc_type"] = "SimCancelled"
            rec["exc_msg"] = str(e)
        except _Skip as e:
            rec["status"] = "skipped"
            rec["exc_msg"] = str(e)
        except BaseException as e:  # noqa: BLE001
            rec["status"] = "exc"
            rec["exc_type"] = type(e).__name__
            rec["exc_msg"] = str(e)[:500]
            rec["exc_tb"] = _short_tb(e, self.lcm_dir)
        finally:
            sys.settrace(sched._global_trace)  # a raising trace function uninstalls itself
            w.cancel_at = None
            rec["events"] = w.op_events
            rec["wall_diag_s"] = round(_time.perf_counter() - _t0, 3)
            rec["log_records"] = ctx["log_records"]
            rec["hits"] = dict(ctx["hits"])
            w.opctx = None
        if self.spy_mode != "off" and op["kind"] == "SIMULATE":
            try:
                self.jax.effects_barrier()
            except Exception:  # noqa: BLE001
                pass
            if len(self.sched.workers) == 1:
                rec["spy"] = self.spy_records[spy_from:]
        self.event_log.append(("op_end", w.id, op["id"], rec["status"], rec.get("exc_type"), rec.get("digest"), rec["events"]))
        sched.op_done(op["id"])

    def _dispatch(self, op, rec):
        kind = op["kind"]
        return getattr(self, "_op_" + kind)(op, rec)

    # -- BUILD
    def _op_BUILD(self, op, rec):
        if op.get("fresh_model"):
            # get_lcm_function(make_model(spec)): the Model object exists for this build only (the
            # generated functions do not keep it alive); its address is free for the next object
            recipe = self.plan["models"][op["model"]]
            fns, _meta = catalogue.compile_functions(recipe, self.jnp, hit=self._hit, stochastic_deco=self.lcm.mark.stochastic)
            model = catalogue.build_model(recipe, fns, self.lcm)
            del fns, _meta
        else:
            model, _, _ = self.get_model(op["model"])
        before = snap_model(model)
        try:
            f, templ = self.get_lcm_function(model, targets=op["target"], debug_mode=op["debug"], jit=op["jit"])
        finally:
            after = snap_model(model)
            if after != before:
                rec["snap_diff"] = "model object modified by get_lcm_function"
        self.handles[op["handle"]] = {"f": f, "templ": templ, "model": op["model"], "target": op["target"], "jit": op["jit"]}
        rec["template"] = describe_template(templ)
        rec["template_order"] = _key_order(templ)
        if op.get("fill"):
            # the user fills the returned template in place (the documented way to write params) and keeps
            # using that object; templates handed out by later builds must still be pristine
            vals = self.plan["params"][op["fill"]]["values"]
            self._overwrite_params(templ, vals, op.get("fill_leaf", "float"), None, self.plan["params"][op["fill"]].get("shocks_dtype", "float64"))
            key = f"T:{op['handle']}"
            self.params_objs[key] = templ
            self.params_refs[key] = {k: v for k, v in templ.items() if isinstance(v, dict)}
        recipe = self.plan["models"][op["model"]]
        rec["grids"] = {
            nm: np.asarray(g.to_jax()) for nm, g in {**model.states, **model.choices}.items()
        }
        rec["model"] = op["model"]
        del recipe, model
        return None

    def _handle(self, op):
        h = self.handles.get(op["handle"])
        if h is None:
            raise _Skip(f"handle {op['handle']} does not exist (its BUILD failed or was skipped)")
        return h

    # -- SOLVE
    def _op_SOLVE(self, op, rec):
        h = self._handle(op)
        params = self.get_params_obj(op)
        model = self.models[h["model"]][0] if h["model"] in self.models else None
        s_before = (snap(params), snap_model(model))
        try:
            res = h["f"](params=params) if op.get("kw") else h["f"](params)
            arrs = [np.asarray(a) for a in res]
        finally:
            s_after = (snap(params), snap_model(model))
            if s_after != s_before:
                rec["snap_diff"] = "params or model modified by solve"
        self.vf_objs[op["id"]] = res
        rec["digest"] = digest_solution(arrs)
        rec["result_type"] = type(res).__name__
        self.kept.append((op["id"], res, lambda r: digest_solution([np.asarray(a) for a in r])))
        del s_before, s_after  # the snapshots hold the scalar leaves themselves
        box = [params]
        params = None  # the caller's loop variable is rebound: the dict of this evaluation is gone
        self._tight_loop_next(op, box)
        return arrs

    def _tight_loop_next(self, op, box):
        """Tight caller loop: the parameters of this evaluation are dropped and those of the next one
        are built immediately (``for theta in grid: p = deepcopy(base); p[...] = theta; f(p)``), so
        that freed memory - and with it id() values - is handed straight to the next object."""
        pf = op.get("prefetch")
        if pf:
            # CPython keeps up to 100 dead float objects for re-use and hands out the most recently
            # freed one first; whether the number the caller creates next lands on the address of the
            # number it just dropped depends on that list, i.e. on unrelated earlier work.  The simulator
            # picks the legal state "list empty" (by holding 200 live floats for a moment), in which the
            # address is re-used for certain - the state a short script or an idle loop is in.
            hold = [i + 0.5 for i in range(200)]
            box.clear()
            self.prefetched[pf["for"]] = self._make_transient_params(pf["params"], pf["leaf"], "template")
            del hold
        else:
            box.clear()
        return None

    def _vf_for(self, op):
        src = op.get("vsrc")
        if src is None:
            return None
        sid = src[1]
        if op.get("vobj"):
            # one caller-owned list of numpy buffers, refilled in place by MUTATE operations
            key = op["vobj"]
            if key not in self.vf_np_objs:
                if sid not in self.vf_objs:
                    raise _Skip(f"value arrays of op {sid} are not available")
                self.vf_np_objs[key] = [np.array(a) for a in self.vf_objs[sid]]
                self.vf_np_src[key] = sid
            if self.vf_np_src.get(key) != sid:
                # the refill that should have put the arrays of op sid into the caller's list was skipped (its
                # source operation had failed): the caller has no such arrays, the call does not take place
                raise _Skip(f"caller-owned value list holds the arrays of op {self.vf_np_src.get(key)}, not of op {sid}")
            return self.vf_np_objs[key]
        if sid not in self.vf_objs:
            raise _Skip(f"value arrays of op {sid} are not available")
        if op.get("transient") and op.get("vform", "asis") in ("np", "jax"):
            return [np.array(a) if op["vform"] == "np" else self.jnp.array(np.asarray(a)) for a in self.vf_objs[sid]]
        if op.get("vform") == "npF":
            # value arrays as they come back from a Fortran-ordered store (same values)
            return [np.asfortranarray(np.asarray(a)) for a in self.vf_objs[sid]]
        if op.get("vform", "asis") == "np":
            if sid not in self.vf_np_objs:
                self.vf_np_objs[sid] = [np.asarray(a) for a in self.vf_objs[sid]]
            return self.vf_np_objs[sid]
        if op.get("vform") == "jax":
            if ("jax", sid) not in self.vf_np_objs:
                self.vf_np_objs[("jax", sid)] = [self.jnp.asarray(a) for a in self.vf_objs[sid]]
            return self.vf_np_objs[("jax", sid)]
        return self.vf_objs[sid]

    # -- SIMULATE
    def _op_SIMULATE(self, op, rec):
        h = self._handle(op)
        params = self.get_params_obj(op)
        batch = self.get_batch_obj(op)
        vf = self._vf_for(op)
        model = self.models[h["model"]][0] if h["model"] in self.models else None
        kwargs = {"initial_states": batch}
        if vf is not None:
            kwargs["vf_arr_list"] = vf
        if op.get("seed") is not None:
            kwargs["seed"] = {"i64": np.int64, "i32": np.int32}.get(op.get("seed_t", "py"), int)(op["seed"])
        if op.get("targets"):
            kwargs["additional_targets"] = list(op["targets"])
        if os.environ.get("DSIM_DEBUG_IDS"):
            lv = self.jax.tree_util.tree_leaves(params)
            print("DBGIDS", op["id"], op["params"], op.get("transient"), op["handle"], [id(x) % 100000 for x in lv], file=sys.stderr)
            del lv
        s_before = (snap(params), snap(batch), snap(vf), snap_model(model))
        try:
            df = h["f"](params=params, **kwargs) if op.get("kw") else h["f"](params, **kwargs)
            fd = frame_to_dict(df)
        finally:
            s_after = (snap(params), snap(batch), snap(vf), snap_model(model))
            if s_after != s_before:
                names = ["params", "initial_states", "vf_arr_list", "model"]
                bad = [n for n, a, b in zip(names, s_before, s_after, strict=True) if a != b]
                rec["snap_diff"] = f"caller-owned objects modified by simulate: {bad}"
        rec["digest"] = digest_frame(fd)
        rec["batch_resolved"] = {k: np.asarray(v) for k, v in batch.items()}
        self.kept.append((op["id"], df, lambda d: digest_frame(frame_to_dict(d))))
        del s_before, s_after  # the snapshots hold the scalar leaves themselves
        box = [params]
        params = None  # the caller's loop variable is rebound: the dict of this evaluation is gone
        self._tight_loop_next(op, box)
        return fd

    # -- durable store
    def _op_STORE(self, op, rec):
        sid = op["src"]
        if sid not in self.vf_objs:
            raise _Skip(f"value arrays of op {sid} are not available")
        self.store[op["key"]] = pickle.dumps([np.asarray(a) for a in self.vf_objs[sid]], protocol=4)
        rec["stored"] = op["key"]

    def _op_LOAD(self, op, rec):
        if op["key"] not in self.store:
            raise _Skip(f"store has no entry {op['key']}")
        arrs = pickle.loads(self.store[op["key"]])  # noqa: S301 - harness-owned bytes
        if op.get("as") == "jax":
            arrs = [self.jnp.asarray(a) for a in arrs]
        self.vf_objs[op["id"]] = arrs
        rec["digest"] = digest_solution([np.asarray(a) for a in arrs])

    # -- caller mutates its own objects in place
    def _op_MUTATE(self, op, rec):
        what, key = op["obj"]
        if what == "params":
            obj = self.params_objs.get(key)
            if obj is None:
                raise _Skip("params object not created yet")
            new_vals = self.plan["params"][op["to"]]["values"]
            self._overwrite_params(
                obj, new_vals, op.get("leaf", "float"), self.params_refs.get(key, {}),
                self.plan["params"][op["to"]].get("shocks_dtype", "float64"),
            )
        elif what == "batch":
            obj = self.batch_objs.get(key)
            if obj is None:
                raise _Skip("batch object not created yet")
            new = self.resolve_batch(op["to"], "np")
            for k, v in new.items():
                cur = obj[k]
                if isinstance(cur, np.ndarray) and cur.shape == v.shape:
                    cur[...] = v.astype(cur.dtype)
                else:
                    obj[k] = self.jnp.array(v) if not isinstance(cur, np.ndarray) else v
        elif what == "vf":
            lst = self.vf_np_objs.get(key)
            if lst is None:
                raise _Skip("numpy value arrays not created yet")
            src = self.vf_objs.get(op["to"])
            if src is None:
                raise _Skip("source value arrays missing")
            for i, a in enumerate(src):
                a = np.asarray(a)
                if isinstance(lst[i], np.ndarray) and lst[i].shape == a.shape and lst[i].flags.writeable:
                    lst[i][...] = a
                else:
                    lst[i] = a.copy()
            self.vf_np_src[key] = op["to"]
        rec["mutated"] = [what, key]

    def _overwrite_params(self, obj, vals, leaf, refs=None, arr_dtype="float64"):
        for k, v in vals.items():
            if isinstance(v, dict):
                # write through the nested dict the caller created (normally obj[k] itself)
                inner = (refs or {}).get(k, obj[k])
                self._overwrite_params(inner, v, leaf, None, arr_dtype)
            else:
                cur = obj.get(k)
                want = np.dtype(arr_dtype) if isinstance(v, list) else None
                if isinstance(cur, np.ndarray) and not cur.flags.writeable and cur.base is not None and cur.shape == np.shape(v) and (want is None or cur.dtype == want):
                    b_ = cur.base
                    while b_.base is not None:
                        b_ = b_.base
                    if b_.flags.writeable:  # the caller updates its own table in place; the leaf is a view of it
                        if cur.shape == ():
                            b_[0] = v
                        else:
                            b_[...] = np.asarray(v, dtype=b_.dtype).reshape(b_.shape)
                        continue
                if isinstance(cur, np.ndarray) and cur.flags.writeable and cur.shape == np.shape(v) and (want is None or cur.dtype == want):
                    cur[...] = v
                else:
                    obj[k] = self._leaf(v, leaf, arr_dtype)

    # -- cache loss, gc
    def _op_CLEAR_CACHES(self, op, rec):  # noqa: ARG002
        busy = [m for m, d in self.sched.jit_depth_by_worker.items() if d > 0]
        if busy:
            raise _Skip("a worker is inside a jit trace; clear_caches restricted to quiescent jit state")
        self.jax.clear_caches()

    def _op_GC(self, op, rec):  # noqa: ARG002
        rec["collected"] = gc.collect()

    # ---------------------------------------------------------------- run
    def run(self):
        report = {"ok": False}
        try:
            self.boot()
            for ph in self.plan["phases"]:
                self.phase = ph["name"]
                self.event_log.append(("phase", ph["name"], ph["n_workers"]))
                per_worker: dict[int, list] = {i: [] for i in range(ph["n_workers"])}
                for op in ph["ops"]:
                    per_worker[op.get("worker", 0) % ph["n_workers"]].append(op)
                self.sched.run_phase(per_worker, self.execute_op)
                # results kept alive must not have changed (aliasing with caller-owned memory)
                for opid, obj, dig in self.kept:
                    try:
                        now = dig(obj)
                    except Exception as e:  # noqa: BLE001
                        now = f"unreadable:{type(e).__name__}"
                    if now != self.records[opid].get("digest"):
                        self.records[opid].setdefault("late_digests", []).append([ph["name"], now])
            report["ok"] = True
        except HarnessError as e:
            report["harness_error"] = repr(e)
        except BaseException as e:  # noqa: BLE001
            report["harness_error"] = f"incarnation crashed: {e!r}\n{traceback.format_exc()}"
        report.update(
            {
                "records": self.records,
                "event_log": self.event_log,
                "decisions": self.sched.decisions.made if hasattr(self, "sched") else [],
                "store": self.store,
                "probes": {
                    **(self.sched.overlap_probe if hasattr(self, "sched") else {}),
                    "switches": self.sched.switches if hasattr(self, "sched") else 0,
                    "preempt_sites": self.sched.preempt_sites if hasattr(self, "sched") else {},
                },
                "seam": self.seam,
                "env": {
                    "hashseed": os.environ.get("PYTHONHASHSEED"),
                    "jax_util_stub": bootstrap.STATE.get("jax_util_stub"),
                    "jax": bootstrap.STATE.get("jax_version"),
                    "lcm_dir": getattr(self, "lcm_dir", None),
                    "log_level": logging.getLogger("lcm").level,
                },
            }
        )
        return report


class _Skip(Exception):
    pass


def _shuffled_keys(d, rng):
    if not isinstance(d, dict):
        return d
    ks = list(d)
    rng.shuffle(ks)
    return {k: _shuffled_keys(d[k], rng) for k in ks}


def _layout(arr, form):
    """Memory layouts in which observed data reach a caller (same values, same dtype): a strided view
    (every second element of a wider buffer), a negative-stride view, a column of a Fortran-ordered
    table, a read-only array."""
    if form == "np_strided":
        big = np.zeros(2 * len(arr) + 1, dtype=arr.dtype)
        big[1::2] = arr
        return big[1::2]
    if form == "np_revview":
        return np.ascontiguousarray(arr[::-1])[::-1]
    if form == "np_fcol":
        table = np.asfortranarray(np.stack([arr[::-1], arr, arr], axis=1))
        return table[:, 1]
    if form == "np_ccol":  # a column of a C-ordered (row-major) data matrix
        table = np.ascontiguousarray(np.stack([arr, arr[::-1], arr], axis=1))
        return table[:, 0]
    if form == "np_ccol_rev":  # the same column of the matrix read bottom-up (rows in reverse order)
        table = np.ascontiguousarray(np.stack([arr[::-1], arr, arr[::-1]], axis=1))
        return table[::-1][:, 0]
    if form == "np_ro":
        out = arr.copy()
        out.setflags(write=False)
        return out
    return arr


class SimLogHandler(logging.Handler):
    """Log sink owned by the simulator (error and stall faults)."""

    def __init__(self, inc):
        super().__init__(level=logging.NOTSET)
        self.inc = inc

    def createLock(self):  # noqa: N802 - logging API
        self.lock = None  # a real lock would be invisible to the simulated scheduler

    def emit(self, record):  # noqa: ARG002
        sched = self.inc.sched
        w = sched.current()
        if w is None or w.opctx is None:
            return
        ctx = w.opctx
        ctx["log_records"] += 1
        n = ctx["log_records"]
        for f in ctx["faults"]:
            if f["kind"] == "log_error" and f["k"] == n and not f.get("_fired"):
                f["_fired"] = True
                ctx["faults_fired"].append(["log_error", n])
                self.inc.event_log.append(("fault", "log_error", w.id, ctx["id"], n))
                raise OSError(errno.ENOSPC, "No space left on device (injected by dsim log sink)")
            if f["kind"] == "log_stall" and f["k"] == n and not f.get("_fired"):
                f["_fired"] = True
                ctx["faults_fired"].append(["log_stall", n, f.get("q", 1)])
                self.inc.event_log.append(("fault", "log_stall", w.id, ctx["id"], n))
                sched.stall(w, f.get("q", 1))


def _key_order(t):
    if isinstance(t, dict):
        return [[k, _key_order(v)] for k, v in t.items()]
    return None


def _short_tb(e, lcm_dir):
    out = []
    for fs in traceback.extract_tb(e.__traceback__):
        if fs.filename.startswith(lcm_dir) or fs.filename.startswith(catalogue.CAT_FILENAME_PREFIX):
            out.append(f"{os.path.basename(fs.filename)}:{fs.lineno}:{fs.name}")
    return out[-8:]


def main(argv):
    plan_path, out_path = argv[1], argv[2]
    with open(plan_path, "rb") as fh:
        plan = pickle.load(fh)  # noqa: S301
    faulthandler.enable()
    faulthandler.dump_traceback_later(plan.get("watchdog_s", 300), exit=True)
    threading.stack_size(64 * 1024 * 1024)
    inc = Incarnation(plan)
    report = inc.run()
    tmp = out_path + ".tmp"
    with open(tmp, "wb") as fh:
        pickle.dump(report, fh, protocol=4)
    os.replace(tmp, out_path)
    faulthandler.cancel_dump_traceback_later()
    sys.stdout.flush()
    sys.stderr.flush()
    os._exit(0 if report.get("ok") else 3)
