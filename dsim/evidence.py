"""Write /verif/evidence/<id>.json from what the runs actually did (DESIGN 3.7)."""

from __future__ import annotations

import json
import os

VERIF = os.path.dirname(os.path.dirname(os.path.abspath(__file__)))

RULES = {
    "C09": "one evaluation = one simulated session (seeded plan: models, handles, workers, faults, restarts) executed on real lcm code; non-trivial = at least one chaos/quiescent operation completed and was compared with the fresh-handle reference; distinct = distinct event-log digest (operations, switch points, faults fired, result digests)",
    "C03": "one evaluation = one simulated session; non-trivial = at least one simulate frame with >= 2 periods was checked row by row against the model's own transition functions; distinct = distinct event-log digest",
    "C04": "one evaluation = one simulated session over a large seeded panel; non-trivial = at least one stochastic panel passed through the exact and the statistical oracles; distinct = distinct event-log digest",
    "C06": "one evaluation = one simulated session with solve -> (store/restart/load) -> simulate hand-offs; non-trivial = at least one on-grid value was compared with the solved array or two call paths were compared; distinct = distinct event-log digest",
    "C08": "one evaluation = one simulated session with batch-membership histories; non-trivial = at least one agent occurred in two different batches and was compared; distinct = distinct event-log digest",
}


def _nontrivial(prop, rep):
    s = rep["stats"]
    if prop == "C09":
        return s.get("ops_ok", 0) > 0 and s.get("sig_count", 0) > 0
    if prop == "C03":
        return s.get("by_kind", {}).get("SIMULATE", 0) > 0
    if prop == "C04":
        return bool(s.get("c04", {}).get("panels", 0)) or s.get("c04_seam_rows_checked", 0) > 0
    if prop == "C06":
        return s.get("c06_ongrid_rows", 0) > 0
    if prop == "C08":
        return s.get("c08_agents_in_memo", 0) > 0
    return True


def _acc(d, k, v):
    d[k] = d.get(k, 0) + v


def write(prop, tier, seed, reports, harness_errors, nondet, wall, n_viol, known_hits, det_checked=0):
    os.makedirs(os.path.join(VERIF, "evidence"), exist_ok=True)
    digests = {r["event_digest"] for r in reports if _nontrivial(prop, r)}
    faults_c, faults_f, probes, kinds, sites = {}, {}, {}, {}, {}
    ops = events = switches = incs = 0
    swarm = {}
    c04 = {}
    for r in reports:
        s = r["stats"]
        ops += s.get("ops", 0)
        events += s.get("line_events", 0)
        switches += s.get("switches", 0)
        incs += s.get("incarnations", 0)
        for k, v in s.get("faults_configured", {}).items():
            _acc(faults_c, k, v)
        for k, v in s.get("faults_fired", {}).items():
            _acc(faults_f, k, v)
        for k, v in s.get("probes", {}).items():
            _acc(probes, k, v)
        for k, v in s.get("by_kind", {}).items():
            _acc(kinds, k, v)
        for k, v in s.get("preempt_sites", {}).items():
            _acc(sites, k, v)
        for k in ("c06_ongrid_rows", "c08_agents_in_memo", "c04_seam_rows_checked", "c04_seam_calls"):
            _acc(probes, k, s.get(k, 0) or 0)
        for k, v in (s.get("c04") or {}).items():
            if k == "session_dispersion_ratio":
                c04["min_session_dispersion_ratio"] = min(c04.get("min_session_dispersion_ratio", 9.9), v)
                c04["max_session_dispersion_ratio"] = max(c04.get("max_session_dispersion_ratio", 0.0), v)
            elif k == "min_dispersion_ratio":
                c04[k] = min(c04.get(k, 9.9), v)  # smallest Pearson statistic / degrees of freedom of any panel (about 1 expected)
            elif k == "min_p_log10":
                c04[k] = min(c04.get(k, 0.0), v)  # the smallest p-value of any run, not a sum
            elif isinstance(v, (int, float)):
                _acc(c04, k, v)
        sw = r.get("swarm") or {}
        _acc(swarm, f"workers={sw.get('n_workers')}", 1)
        _acc(swarm, f"restart={sw.get('restart')}", 1)
        _acc(swarm, f"spy={sw.get('spy')}", 1)
        _acc(swarm, f"quanta={sw.get('quanta')}", 1)
        _acc(swarm, "fault_free" if not sw.get("fault_kinds") else "with_faults", 1)
    samples = [r["sample"] for r in reports[:3] if r.get("sample")]
    ev = {
        "property_id": prop,
        "tier": tier,
        "seed": int(seed),
        "level": "exploration",
        "coverage": {
            "evaluations": max(len(reports), 0),
            "distinct_nontrivial": len(digests),
            "rule": RULES[prop],
            "samples": samples or [{"note": "no run completed"}],
            "technique": "deterministic simulation with fault injection (dsim): seeded search over operation sequences, schedules and faults",
            "runs": len(reports),
            "runs_per_hour": round(len(reports) / wall * 3600, 1) if wall > 0 else 0,
            "operations": ops,
            "operations_by_kind": kinds,
            "incarnations_started": incs,
            "simulated_time": {"unit": "logical steps (sys.settrace line events inside lcm and model code); lcm has no clock", "steps": events},
            "context_switches": switches,
            "distinct_preemption_sites": len(sites),
            "top_preemption_sites": dict(sorted(sites.items(), key=lambda kv: -kv[1])[:12]),
            "faults_configured": faults_c,
            "faults_fired": faults_f,
            "reach_probes": probes,
            "swarm_configurations": swarm,
            "c04_statistics": c04,
            "determinism_selftest": {"run_seeds_executed_twice": det_checked, "event_log_mismatches": len(nondet)},
            "harness_errors": len(harness_errors),
            "known_findings_seen": sorted(known_hits),
            "components": {
                "real": ["all of lcm from the current /repo working tree (LCM_SRC)", "jax/jaxlib/XLA:CPU", "dags", "pandas", "python logging"],
                "stub": [
                    "catalogue model functions (generated python source, harness-owned)",
                    "log sink (logging.Handler owned by the simulator)",
                    "durable store (dict of pickled arrays kept by the driver across restarts)",
                    "scheduler (baton passing over real threads, pre-emption at line events; extra pre-emption right before/after statements that write to possibly shared memory, found by a syntactic scan of the code under test)",
                    "jax.jit wrapper (simulated per-object mutex, delegates to the real jax.jit)",
                    "jax.util stand-in (only because the installed jax has no jax.util)",
                    "scripted sampler replacing lcm.next_state.random_choice (scripted-draw runs only)",
                ],
            },
        },
        "assumptions": [
            "single worker runs at any moment (baton passing): true parallelism inside jaxlib is not explored",
            "CPU backend, float64 (jax_enable_x64), XLA single-threaded; compiled XLA executables are re-used within one session through JAX's persistent compilation cache in a per-session scratch directory (DSIM_XLA_CACHE=off disables it)",
            "catalogue models avoid exact ties between choices and states without feasible choice (outside the claimed properties)",
            "float columns compared with rtol=1e-9; integer/discrete columns exactly",
            "a clean batch is evidence from sampling, not a proof",
        ],
        "wall_s": round(wall, 1),
        "violations": int(n_viol),
    }
    path = os.path.join(VERIF, "evidence", f"{prop}.json")
    with open(path, "w") as fh:
        json.dump(ev, fh, indent=1, default=str)
    return path
