"""Small numpy evaluator of catalogue models (DESIGN 4.3, 4.4): no lcm, no dags, no jax.

It executes the *same generated source* as the incarnation, with ``xp = numpy``.
"""

from __future__ import annotations

import itertools

import numpy as np

from dsim import catalogue


class ModelEval:
    def __init__(self, recipe: dict):
        self.recipe = recipe
        self.fns, self.meta = catalogue.compile_functions(recipe, np)
        self.states = list(recipe["states_order"])
        self.choices = list(recipe["choices_order"])
        self.dstate_n = {d["name"]: d["n"] for d in recipe["dstates"]}
        self.dchoice_n = {d["name"]: d["n"] for d in recipe["dchoices"]}
        self.stochastic = self.meta["stochastic"]
        # continuous states by name (axes of the value arrays follow the declaration order)
        self.cstates = {c["name"]: c for c in (recipe.get("cstate"), recipe.get("cstate2")) if c}

    # ------------------------------------------------------------------ function DAG
    def eval_fn(self, name, env, params, cache=None):
        cache = {} if cache is None else cache
        if name in cache:
            return cache[name]
        vals = []
        for a in self.meta["fn_args"][name]:
            if a in env:
                vals.append(env[a])
            elif a in self.fns:
                vals.append(self.eval_fn(a, env, params, cache))
            else:
                raise KeyError(f"argument {a} of {name} is neither a variable nor a function")
        kw = {p: _scalar(params[name][p]) for p in self.meta["fn_params"][name]}
        out = self.fns[name](*vals, **kw)
        cache[name] = out
        return out

    def next_det(self, env, params):
        """Deterministic next states for all rows of ``env``: {state: array}."""
        cache = {}
        out = {}
        for fn in self.meta["next_det"]:
            out[fn.removeprefix("next_")] = np.asarray(self.eval_fn(fn, env, params, cache))
        return out

    def transition_rows(self, state, env, params, period):
        """Rows of the transition array selected by each row's dependency labels."""
        arr = np.asarray(params["shocks"][state], dtype=np.float64)
        idx = []
        n = len(next(iter(env.values()))) if env else 0
        for d in self.stochastic[state]:
            if d == "_period":
                idx.append(np.full(n, period, dtype=np.int64))
            else:
                idx.append(np.asarray(env[d]).astype(np.int64))
        if not idx:
            return np.broadcast_to(arr, (n, arr.shape[-1]))
        return arr[tuple(idx)]

    # ------------------------------------------------------------------ layout of value arrays
    def sparse_states(self):
        f = self.recipe["filter"]
        if not f:
            return []
        args = set()
        for fn in self.meta["filters"]:
            args.update(self.meta["fn_args"][fn])
        return [s for s in self.states if s in args]

    def sparse_choices(self):
        f = self.recipe["filter"]
        if not f:
            return []
        args = set()
        for fn in self.meta["filters"]:
            args.update(self.meta["fn_args"][fn])
        return [c for c in self.choices if c in args]

    def feasible_sparse_state_ranks(self, period):
        """{restricted-state combination (tuple in declaration order): rank} for ``period``."""
        ss, sc = self.sparse_states(), self.sparse_choices()
        ranks = {}
        r = 0
        for combo in itertools.product(*[range(self.dstate_n[s]) for s in ss]):
            ok = False
            for cc in itertools.product(*[range(self.dchoice_n[c]) for c in sc]):
                env = {**dict(zip(ss, combo, strict=True)), **dict(zip(sc, cc, strict=True)), "_period": period}
                passed = True
                for fn in self.meta["filters"]:
                    vals = [np.asarray(env[a]) for a in self.meta["fn_args"][fn]]
                    passed = passed and bool(self.fns[fn](*vals))
                if passed:
                    ok = True
                    break
            if ok:
                ranks[combo] = r
                r += 1
        return ranks

    def expected_shape(self, period):
        ss = self.sparse_states()
        shape = []
        if ss:
            shape.append(len(self.feasible_sparse_state_ranks(period)))
        for s in self.states:
            if s in self.dstate_n and s not in ss:
                shape.append(self.dstate_n[s])
        for s in self.states:
            if s in self.cstates:
                shape.append(self.cstates[s]["n"])
        return tuple(shape)

    def value_lookup(self, vf, period, rows: dict, grids=None, tol=1e-10):
        """Entries of ``vf`` (array of ``period``) at the on-grid rows.

        Returns (mask of rows that are on the grid, looked-up values for those rows).
        """
        n = len(next(iter(rows.values())))
        ss = self.sparse_states()
        on = np.ones(n, dtype=bool)
        index = []
        if ss:
            ranks = self.feasible_sparse_state_ranks(period)
            combos = np.stack([np.asarray(rows[s]).astype(np.int64) for s in ss], axis=1)
            rk = np.array([ranks.get(tuple(int(x) for x in c), -1) for c in combos], dtype=np.int64)
            on &= rk >= 0
            index.append(rk)
        for s in self.states:
            if s in self.dstate_n and s not in ss:
                index.append(np.asarray(rows[s]).astype(np.int64))
        for s in self.states:
            if s not in self.cstates:
                continue
            g = (grids or {}).get(s)
            grid = np.asarray(g if g is not None else catalogue.grid_values(self.cstates[s]))
            a = np.asarray(rows[s], dtype=np.float64)
            pos = np.abs(a[:, None] - grid[None, :]).argmin(axis=1)
            near = np.abs(a - grid[pos]) <= tol * np.maximum(1.0, np.abs(grid[pos]))
            on &= near
            index.append(pos.astype(np.int64))
        vf = np.asarray(vf)
        if vf.ndim != len(index):
            raise LayoutError(f"value array of period {period} has rank {vf.ndim}, documented layout has rank {len(index)}")
        for ax, ix in enumerate(index):
            if ix[on].size and (ix[on].max() >= vf.shape[ax] or ix[on].min() < 0):
                raise LayoutError(f"axis {ax} of the value array of period {period} has length {vf.shape[ax]}, index {ix[on].max()} needed")
        sel = tuple(ix[on] for ix in index)
        return on, vf[sel]


class LayoutError(Exception):
    pass


def _scalar(x):
    a = np.asarray(x)
    return float(a) if a.shape == () else a
