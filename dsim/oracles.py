"""Oracles over the recorded history of a run (DESIGN 3.4, 3.6, 4.1-4.5).

Every oracle returns a list of violation dicts
    {"property", "class", "op", "detail", "finding_key"}
``finding_key`` is a stable description of *what* fails (model shape / call site), used
only to match entries of /verif/known_findings.jsonl.
"""

from __future__ import annotations

import numpy as np

from dsim import catalogue
from dsim.evaluator import LayoutError, ModelEval

RTOL = 1e-9
ATOL = 1e-11
EXPECTED_EXC = {"log_error": "OSError", "callback_raise": "InjectedCallbackError", "cancel": "SimCancelled"}


# ======================================================================================
# comparisons (DESIGN 3.6): by column name and by value
# ======================================================================================


def _is_int(a):
    return np.issubdtype(a.dtype, np.integer) or a.dtype == bool


def compare_arrays(a, b, what, rtol=RTOL, atol=ATOL):
    a, b = np.asarray(a), np.asarray(b)
    if a.shape != b.shape:
        return f"{what}: shapes differ {a.shape} vs {b.shape}"
    if _is_int(a) and _is_int(b):
        if not np.array_equal(a.astype(np.int64), b.astype(np.int64)):
            i = int(np.flatnonzero(a.ravel() != b.ravel())[0])
            return f"{what}: integer entries differ at flat index {i}: {a.ravel()[i]} vs {b.ravel()[i]}"
        return None
    af, bf = a.astype(np.float64), b.astype(np.float64)
    if not np.allclose(af, bf, rtol=rtol, atol=atol, equal_nan=True):
        bad = ~np.isclose(af, bf, rtol=rtol, atol=atol, equal_nan=True)
        i = int(np.flatnonzero(bad.ravel())[0])
        return f"{what}: values differ at flat index {i}: {af.ravel()[i]!r} vs {bf.ravel()[i]!r} ({int(bad.sum())} of {bad.size} entries)"
    return None


def compare_solutions(a, b):
    if len(a) != len(b):
        return f"number of value arrays differs: {len(a)} vs {len(b)}"
    for t, (x, y) in enumerate(zip(a, b, strict=True)):
        d = compare_arrays(x, y, f"value array of period {t}")
        if d:
            return d
    return None


def compare_frames(fa, fb):
    ca, cb = set(fa["columns"]), set(fb["columns"])
    if ca != cb:
        return f"column sets differ: {sorted(ca ^ cb)}"
    for i, (x, y) in enumerate(zip(fa["index"], fb["index"], strict=True)):
        d = compare_arrays(x, y, f"index level {i}")
        if d:
            return d
    for c in sorted(ca):
        d = compare_arrays(fa["data"][c], fb["data"][c], f"column {c}")
        if d:
            return d
    return None


def frame_rows(fd, t):
    """Columns of the rows with period == t, ordered by agent id."""
    per, ag = np.asarray(fd["index"][0]), np.asarray(fd["index"][1])
    sel = np.flatnonzero(per == t)
    sel = sel[np.argsort(ag[sel], kind="stable")]
    return {c: np.asarray(fd["data"][c])[sel] for c in fd["columns"]}, ag[sel]


def n_periods_of(fd):
    return int(np.asarray(fd["index"][0]).max()) + 1 if len(fd["index"][0]) else 0


# ======================================================================================
# shape description used for known-finding keys
# ======================================================================================


def shape_key(recipe):
    ds = ",".join(f"{d['name']}:{d['trans']['kind']}" for d in sorted(recipe["dstates"], key=lambda d: d["name"]))
    parts = [
        f"dstates[{ds}]",
        f"cstate[{recipe['cstate']['trans'] if recipe['cstate'] else '-'}{('+b:' + recipe['cstate2']['trans']) if recipe.get('cstate2') else ''}]",
        f"dchoices[{','.join(sorted(c['name'] for c in recipe['dchoices']))}]",
        f"cchoices[{','.join(sorted(c['name'] for c in recipe['cchoices']))}]",
        f"filter[{recipe['filter']['kind'] if recipe['filter'] else '-'}]",
    ]
    return " ".join(parts)


class History:
    """All op records of a run (across incarnations) with convenient views."""

    def __init__(self, plan, records):
        self.plan = plan
        self.records = records  # list of dicts (each has id, inc, phase, op (plan op), status, ...)
        self.by_id = {r["id"]: r for r in records}
        self._evals = {}

    def ev(self, mid) -> ModelEval:
        if mid not in self._evals:
            self._evals[mid] = ModelEval(self.plan["models"][mid])
        return self._evals[mid]

    def ok(self, kind=None):
        return [r for r in self.records if r["status"] == "ok" and (kind is None or r["kind"] == kind)]

    def params(self, pid):
        return self.plan["params"][pid]["values"]


def _viol(prop, cls, rec, detail, plan, extra_key=""):
    op = rec.get("op", {}) if rec else {}
    mid = op.get("model_id")
    sk = shape_key(plan["models"][mid]) if mid in plan["models"] else ""
    return {
        "property": prop,
        "class": cls,
        "op": rec.get("id") if rec else None,
        "detail": detail,
        "finding_key": f"{cls} {extra_key} {sk}".strip(),
    }


# ======================================================================================
# C09 - purity
# ======================================================================================


def oracle_c09(h: History):
    out = []
    plan = h.plan
    ref = {}
    for r in h.records:
        if r["phase"] == "reference" and r["status"] == "ok" and r["op"].get("sig") and "result" in r:
            ref.setdefault(r["op"]["sig"], r)
    first_by_sig = {}
    for r in h.records:
        op = r["op"]
        sig = op.get("sig")
        # --- exceptions
        if r["status"] == "exc":
            fired = [f[0] for f in r.get("faults_fired", []) if f[0] in EXPECTED_EXC]
            allowed = {EXPECTED_EXC[k] for k in fired}
            if r.get("exc_type") not in allowed:
                cls = "no-result" if r["phase"] == "reference" else "unexpected-exception"
                out.append(
                    _viol(
                        "C09", cls, r,
                        f"{r['kind']} op {r['id']} ({sig or op.get('handle')}) in phase {r['phase']} raised "
                        f"{r.get('exc_type')}: {r.get('exc_msg')} at {r.get('exc_tb')}; faults fired: {r.get('faults_fired')}",
                        plan, extra_key=f"{r.get('exc_type')}@{(r.get('exc_tb') or ['?'])[-1]}",
                    )
                )
            continue
        if r["status"] != "ok":
            continue
        # --- inputs untouched, results stable
        if r.get("snap_diff"):
            out.append(_viol("C09", "input-modified", r, f"op {r['id']}: {r['snap_diff']}", plan))
        if r.get("late_digests"):
            out.append(
                _viol("C09", "result-changed-after-return", r, f"op {r['id']}: result digest changed later: {r['late_digests'][:2]}", plan)
            )
        # --- result determined by the arguments
        if sig and "result" in r:
            base = ref.get(sig) or first_by_sig.get(sig)
            if base is None:
                first_by_sig[sig] = r
            elif base is not r and r.get("digest") != base.get("digest"):
                cmp = compare_solutions if r["kind"] == "SOLVE" else compare_frames
                d = cmp(base["result"], r["result"])
                if d:
                    out.append(
                        _viol(
                            "C09", "result-differs", r,
                            f"op {r['id']} [{sig}] (phase {r['phase']}, inc {r['inc']}, worker {r['worker']}, handle {op.get('handle')}) "
                            f"differs from op {base['id']} (phase {base['phase']}, inc {base['inc']}, handle {base['op'].get('handle')}): {d}",
                            plan,
                        )
                    )
    # --- templates of repeated builds
    templ = {}
    for r in h.ok("BUILD"):
        key = r["op"]["model"]
        t = (repr(r.get("template")), repr(r.get("template_order")))
        if key in templ and templ[key][0] != t:
            out.append(
                _viol("C09", "template-differs", r, f"BUILD op {r['id']} returned a different template than BUILD op {templ[key][1]} for the same model", plan)
            )
        templ.setdefault(key, (t, r["id"]))
    # --- bounded liveness once faults have stopped
    for r in h.records:
        if r["phase"] == "quiescent" and r["status"] == "skipped" and r["kind"] in ("SOLVE", "SIMULATE"):
            pass  # producer unavailable: a harness matter, reported in stats
    return out


def oracle_no_result(h: History, prop: str):
    """A legal simulate call made in a fault-free, single-worker phase must return a frame.

    Without a frame none of the frame properties can hold for that input; the failure is
    reported under the property whose check is running (class ``no-result``)."""
    out = []
    for r in h.records:
        if r["kind"] != "SIMULATE" or r["status"] != "exc" or r["phase"] not in ("reference", "quiescent"):
            continue
        if r["op"].get("faults") or r.get("faults_fired"):
            continue
        out.append(
            _viol(
                prop, "no-result", r,
                f"SIMULATE op {r['id']} ({r['op'].get('sig')}) in phase {r['phase']} raised {r.get('exc_type')}: {r.get('exc_msg')} at {r.get('exc_tb')}",
                h.plan, extra_key=f"{r.get('exc_type')}@{(r.get('exc_tb') or ['?'])[-1]}",
            )
        )
    return out


# ======================================================================================
# C03 - law of motion
# ======================================================================================


def oracle_c03(h: History):
    out = []
    plan = h.plan
    for r in h.ok("SIMULATE"):
        if "result" not in r:
            continue
        op = r["op"]
        mid = op["model_id"]
        ev = h.ev(mid)
        fd = r["result"]
        params = h.params(op["params"])
        T = n_periods_of(fd)
        missing = [s for s in ev.states if s not in fd["data"]]
        if missing:
            out.append(_viol("C03", "state-column-missing", r, f"op {r['id']}: no column for states {missing}", plan))
            continue
        rows0, agents0 = frame_rows(fd, 0)
        init = r.get("batch_resolved") or {}
        for s in ev.states:
            d = compare_arrays(rows0[s], init[s], f"period-0 state {s} vs supplied initial state", rtol=0, atol=0)
            if d:
                out.append(_viol("C03", "initial-state", r, f"op {r['id']} [{op['sig']}]: {d}", plan))
        script = [s for s in r.get("spy", []) if s["kind"] == "script"] if r.get("spy") else []
        for t in range(T - 1):
            rows, _ = frame_rows(fd, t)
            nxt, _ = frame_rows(fd, t + 1)
            env = {k: rows[k] for k in ev.states + ev.choices if k in rows}
            env["_period"] = t
            try:
                exp = ev.next_det(env, params)
            except Exception as e:  # noqa: BLE001
                out.append(_viol("C03", "oracle-input", r, f"op {r['id']}: cannot evaluate transitions on reported row: {e!r}", plan))
                break
            for s, v in exp.items():
                d = compare_arrays(nxt[s], v, f"state {s} in period {t + 1} vs next_{s}(period-{t} row)", rtol=1e-12, atol=1e-12)
                if d:
                    out.append(_viol("C03", "deterministic-transition", r, f"op {r['id']} [{op['sig']}]: {d}", plan, extra_key=f"next_{s}"))
            for s in ev.stochastic:
                lab = np.asarray(nxt[s])
                n = ev.dstate_n[s]
                if _is_int(lab):
                    li = lab.astype(np.int64)
                else:
                    li = np.rint(lab).astype(np.int64)
                    if not np.array_equal(li.astype(np.float64), lab.astype(np.float64)):
                        out.append(_viol("C03", "stochastic-label-not-in-grid", r, f"op {r['id']}: state {s} period {t + 1} has non-label values", plan))
                        continue
                if li.min() < 0 or li.max() >= n:
                    out.append(_viol("C03", "stochastic-label-not-in-grid", r, f"op {r['id']}: state {s} period {t + 1} outside 0..{n - 1}", plan))
                    continue
                P = ev.transition_rows(s, env, params, t)
                p = P[np.arange(len(li)), li]
                if (p <= 0).any():
                    i = int(np.flatnonzero(p <= 0)[0])
                    out.append(
                        _viol(
                            "C03", "zero-probability-transition", r,
                            f"op {r['id']} [{op['sig']}]: agent {i} moved to {s}={li[i]} in period {t + 1}, which has probability 0 in the row "
                            f"{P[i].tolist()} selected by its period-{t} variables",
                            plan, extra_key=f"next_{s}",
                        )
                    )
        # scripted draws: the label chosen by the simulator for agent i is reported for agent i
        if script:
            out += _check_script(h, r, ev, fd, script, params)
    return out


def _check_script(h, r, ev, fd, script, params):
    out = []
    T = n_periods_of(fd)
    used = set()
    for t in range(T - 1):
        rows, _ = frame_rows(fd, t)
        nxt, _ = frame_rows(fd, t + 1)
        env = {k: rows[k] for k in ev.states + ev.choices if k in rows}
        for s in ev.stochastic:
            P = ev.transition_rows(s, env, params, t)
            # find the scripted call made with exactly these probability rows
            match = None
            for j, sc in enumerate(script):
                if j in used:
                    continue
                if sc["probs"].shape == P.shape and np.allclose(sc["probs"], P, rtol=0, atol=1e-12):
                    match = j
                    break
            if match is None:
                continue
            used.add(match)
            chosen = script[match]["idx"].astype(np.int64)
            rep = np.asarray(nxt[s]).astype(np.int64)
            if not np.array_equal(chosen, rep):
                i = int(np.flatnonzero(chosen != rep)[0])
                out.append(
                    _viol(
                        "C03", "scripted-draw-misassigned", r,
                        f"op {r['id']}: the draw chosen for agent {i} of {s} in period {t} was {chosen[i]}, the frame reports {rep[i]}",
                        h.plan, extra_key=f"next_{s}",
                    )
                )
    return out


# ======================================================================================
# C06 - solve and simulate agree
# ======================================================================================


def path_kind(op):
    if op.get("vsrc") is None:
        return "solve_and_simulate"
    return "simulate+" + ("stored" if op.get("vsrc_kind") == "store" else "solved") + ":" + op.get("vform", "asis")


def oracle_c06(h: History):
    out = []
    plan = h.plan
    # (a) the call paths give the same frame
    groups = {}
    for r in h.ok("SIMULATE"):
        op = r["op"]
        if "result" in r and op.get("vparams") == op["params"]:
            groups.setdefault(op["sig"], []).append(r)
    for sig, rs in groups.items():
        base = rs[0]
        for r in rs[1:]:
            if path_kind(r["op"]) == path_kind(base["op"]) and r["inc"] == base["inc"]:
                continue
            if r.get("digest") == base.get("digest"):
                continue
            d = compare_frames(base["result"], r["result"])
            if d:
                out.append(
                    _viol(
                        "C06", "paths-differ", r,
                        f"[{sig}] op {r['id']} via {path_kind(r['op'])} (inc {r['inc']}) differs from op {base['id']} via {path_kind(base['op'])} (inc {base['inc']}): {d}",
                        plan,
                    )
                )
    # (b) on-grid value == solved array entry
    solved = {}
    for r in h.ok("SOLVE"):
        if "result" in r:
            solved.setdefault((r["op"]["model_id"], r["op"]["params"]), r)
    for r in h.ok("SIMULATE"):
        op = r["op"]
        if "result" not in r or op.get("vparams") != op["params"]:
            continue
        s = solved.get((op["model_id"], op["params"]))
        if s is None:
            continue
        ev = h.ev(op["model_id"])
        fd = r["result"]
        T = n_periods_of(fd)
        if len(s["result"]) != T:
            out.append(_viol("C06", "periods-differ", r, f"op {r['id']}: frame has {T} periods, solution {len(s['result'])}", plan))
            continue
        grids = None
        for b in h.ok("BUILD"):
            if b["op"]["model"] == op["model_id"] and b.get("grids"):
                grids = b["grids"]
                break
        for t in range(T):
            rows, _ = frame_rows(fd, t)
            try:
                on, v = ev.value_lookup(s["result"][t], t, rows, grids=grids)
            except LayoutError as e:
                out.append(_viol("C06", "layout", r, f"op {r['id']}: {e}", plan))
                break
            if not on.any():
                continue
            r.setdefault("_ongrid", 0)
            r["_ongrid"] += int(on.sum())
            d = compare_arrays(np.asarray(rows["value"])[on], v, f"value of on-grid agents in period {t} vs solved array (solve op {s['id']})", rtol=1e-8, atol=1e-9)
            if d:
                out.append(_viol("C06", "value-vs-solution", r, f"op {r['id']} [{op['sig']}]: {d}", plan))
    return out


# ======================================================================================
# C08 - agents are independent
# ======================================================================================


def oracle_c08(h: History):
    out = []
    plan = h.plan
    memo = {}
    for r in h.ok("SIMULATE"):
        if "result" not in r:
            continue
        op = r["op"]
        mid = op["model_id"]
        recipe = plan["models"][mid]
        ev = h.ev(mid)
        deterministic = not ev.stochastic
        fd = r["result"]
        T = n_periods_of(fd)
        init = r.get("batch_resolved") or {}
        states = sorted(init)
        n = len(next(iter(init.values()))) if init else 0
        if n > 400 and not deterministic:
            continue  # large stochastic panels belong to C04
        cols = sorted(c for c in fd["columns"])
        per = [frame_rows(fd, t)[0] for t in range(T)]
        # large batches: the first and last agents and an evenly spaced sample
        idxs = range(n) if n <= 400 else sorted({*range(30), *range(n - 60, n), *(int(x) for x in np.linspace(0, n - 1, 40))})
        for i in idxs:
            agent = tuple((s, float(init[s][i])) for s in states)
            base_key = (mid, op["params"], op.get("vparams"), tuple(op.get("targets") or ()), agent)
            horizon = T if deterministic else 1
            path = {c: np.array([per[t][c][i] for t in range(horizon)]) for c in cols}
            if not deterministic:
                # only the period-0 decision and value (states in period 0 are the inputs)
                path = {c: v for c, v in path.items()}
            key = base_key if deterministic else (*base_key, "p0")
            prev = memo.get(key)
            if prev is None:
                memo[key] = (r, i, path)
                continue
            pr, pi, ppath = prev
            for c in cols:
                if c not in ppath:
                    continue  # differing column sets for equal arguments are a C09 matter (result-differs)
                d = compare_arrays(ppath[c], path[c], f"column {c}")
                if d:
                    out.append(
                        _viol(
                            "C08", "agent-depends-on-batch", r,
                            f"agent {dict(agent)} (model {mid}, {'full path' if deterministic else 'period 0'}): row {i} of op {r['id']} "
                            f"(batch {op['batch']}, {n} agents) differs from row {pi} of op {pr['id']} (batch {pr['op']['batch']}): {d}",
                            plan,
                        )
                    )
                    break
        del recipe
    return out, len(memo)


# ======================================================================================
# C04 - stochastic draws (exact parts and seam monitors; statistics in stats.py)
# ======================================================================================


def oracle_c04_exact(h: History):
    out = []
    plan = h.plan
    by_sig_noseed = {}
    for r in h.ok("SIMULATE"):
        if "result" not in r:
            continue
        op = r["op"]
        ev = h.ev(op["model_id"])
        if not ev.stochastic:
            continue
        by_sig_noseed.setdefault(op["sig_noseed"], []).append(r)
    for _, rs in by_sig_noseed.items():
        # same seed -> identical frames (exact)
        by_seed = {}
        for r in rs:
            by_seed.setdefault((r["op"].get("seed"), r["op"].get("seed_t", "py")), []).append(r)
        for seed, g in by_seed.items():
            for r in g[1:]:
                if r.get("digest") != g[0].get("digest"):
                    # float columns: tolerance of DESIGN 3.6 (different handles / jit flags differ by ulps in `value`);
                    # integer columns - in particular every stochastic state - exactly
                    d = compare_frames(g[0]["result"], r["result"])
                    if d:
                        out.append(_viol("C04", "same-seed-differs", r, f"seed {seed}: op {r['id']} vs op {g[0]['id']}: {d}", plan))
        # different seeds -> identical period 0 (exact)
        seeds = sorted(by_seed, key=lambda s: (s[0] is None, s[0] or 0, s[1]))
        if len(seeds) > 1:
            b = by_seed[seeds[0]][0]
            b0, _ = frame_rows(b["result"], 0)
            for s in seeds[1:]:
                r = by_seed[s][0]
                r0, _ = frame_rows(r["result"], 0)
                for c in sorted(b0):
                    if c not in r0:
                        continue
                    d = compare_arrays(b0[c], r0[c], f"period-0 column {c}")
                    if d:
                        out.append(_viol("C04", "seed-changes-period-0", r, f"seeds {seeds[0]} vs {s} (ops {b['id']}, {r['id']}): {d}", plan))
                        break
    # seam monitors
    for r in h.ok("SIMULATE"):
        spy = r.get("spy")
        if not spy or "result" not in r:
            continue
        out += _seam_checks(h, r, spy)
    return out


def _seam_checks(h, r, spy):
    out = []
    plan = h.plan
    op = r["op"]
    ev = h.ev(op["model_id"])
    recipe = plan["models"][op["model_id"]]
    fd = r["result"]
    params = h.params(op["params"])
    T = n_periods_of(fd)
    rcs = [s for s in spy if s["kind"] == "rc"]
    vrcs = [s for s in spy if s["kind"] == "vrc"]
    r["_seam_rc"] = len(rcs)
    # --- key reuse across (period, variable) draws with non-degenerate rows
    seen = {}
    for j, s in enumerate(rcs):
        nondeg = bool(((s["probs"] > 0).sum(axis=1) > 1).any())
        k = tuple(int(x) for x in np.asarray(s["key"]).ravel())
        if k in seen and (nondeg or seen[k][1]):
            out.append(_viol("C04", "key-reused", r, f"op {r['id']}: random_choice call {j} uses the same key {k} as call {seen[k][0]}", plan))
        seen.setdefault(k, (j, nondeg))
    for j, s in enumerate(vrcs):
        ks = np.asarray(s["keys"]).reshape(len(s["keys"]), -1)
        if len(np.unique(ks, axis=0)) != len(ks):
            out.append(_viol("C04", "per-agent-key-reused", r, f"op {r['id']}: per-agent keys of draw {j} are not pairwise distinct", plan))
    # --- probability rows handed to the sampler == rows of params selected by the agent's own labels
    used = set()
    for t in range(T - 1):
        rows, _ = frame_rows(fd, t)
        nxt, _ = frame_rows(fd, t + 1)
        env = {k: rows[k] for k in ev.states + ev.choices if k in rows}
        for s in ev.stochastic:
            P = ev.transition_rows(s, env, params, t)
            rep = np.asarray(nxt[s]).astype(np.int64)
            # identify the call by its draws (they are what the frame reports)
            cand = [j for j, sc in enumerate(rcs) if j not in used and sc["out"].shape == rep.shape and np.array_equal(np.asarray(sc["out"]).astype(np.int64), rep)]
            if not cand:
                continue
            # prefer the candidate whose rows match
            j = next((j for j in cand if rcs[j]["probs"].shape == P.shape and np.array_equal(rcs[j]["probs"], P)), cand[0])
            if len(cand) > 1 and not (rcs[j]["probs"].shape == P.shape and np.array_equal(rcs[j]["probs"], P)):
                continue  # ambiguous (degenerate draws): nothing asserted
            used.add(j)
            sc = rcs[j]
            r["_seam_rows_checked"] = r.get("_seam_rows_checked", 0) + len(rep)
            if sc["probs"].shape != P.shape or not np.array_equal(sc["probs"], P):
                bad = "shape" if sc["probs"].shape != P.shape else int(np.flatnonzero((sc["probs"] != P).any(axis=1))[0])
                out.append(
                    _viol(
                        "C04", "wrong-probability-row", r,
                        f"op {r['id']} [{op['sig']}]: the rows given to the sampler for {s} in period {t} are not the rows of params['shocks'][{s!r}] "
                        f"selected by the agents' own ({', '.join(ev.stochastic[s])}) (first bad agent: {bad})",
                        plan, extra_key=f"next_{s}",
                    )
                )
            n = catalogue._dstate(recipe, s)["n"]
            if not np.array_equal(np.asarray(sc["labels"]).astype(np.int64), np.arange(n)):
                out.append(_viol("C04", "wrong-labels", r, f"op {r['id']}: labels given to the sampler for {s} are {sc['labels'].tolist()}", plan))
    return out
