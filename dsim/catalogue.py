"""Model catalogue: seeded recipes -> Python source -> lcm Model (DESIGN 3.1).

A *recipe* is a JSON-serialisable dict.  ``render(recipe)`` turns it into Python source
whose functions use the array namespace ``xp``:  the incarnation executes the source
with ``xp = jax.numpy`` and hands the functions to lcm; the controller executes the very
same source with ``xp = numpy`` and uses the functions as the law-of-motion oracle.

Construction rules that keep every oracle sound (DESIGN 3.1):
  * every state enters utility (lcm issue #30);
  * every reachable state has a feasible choice (the smallest continuous choice is
    always admitted by every constraint, filters always admit one discrete choice);
  * transitions never leave the supported range (clipped) and never enter filter-excluded
    states;
  * discrete deterministic transitions use integer arithmetic only;
  * coefficients are generic reals, so exact ties between choices do not occur.
"""

from __future__ import annotations

import itertools
import math

CAT_FILENAME_PREFIX = "<dsim-catalogue:"


def _lit(x: float) -> str:
    return repr(float(x))


def _gen_coef(rng, lo=0.2, hi=1.5, signed=True):
    v = rng.uniform(lo, hi)
    if signed and rng.random() < 0.5:
        v = -v
    # generic: add irrational-ish jitter so that no two coefficients are simple ratios
    return v + rng.uniform(-0.01, 0.01) * math.pi  # full precision: exact ties have probability ~1e-16


# ======================================================================================
# recipe generation
# ======================================================================================


def gen_recipe(rng, name: str, want: dict | None = None) -> dict:
    """Draw a model recipe.  ``want`` biases the draw:

    stochastic: True/False/None   - at least one / no stochastic state
    cstate: True/False/None       - continuous state present
    node: True/None               - node-to-node continuous transition (next a = s)
    filter: True/False/None
    periods: (lo, hi)
    """
    want = dict(want or {})
    lo_p, hi_p = want.get("periods", (1, 4))
    n_periods = rng.randint(lo_p, hi_p)

    def pick(key, p):
        v = want.get(key)
        return (rng.random() < p) if v is None else bool(v)

    has_a = pick("cstate", 0.7)
    stochastic = pick("stochastic", 0.5)
    use_filter = pick("filter", 0.35)
    allow_mixed = bool(want.get("allow_sparse_and_dense_choice", True))

    # ---- discrete choices ----------------------------------------------------------
    n_dc = rng.choice([1, 1, 2]) if not has_a else rng.choice([0, 1, 1, 2])
    if use_filter:
        n_dc = max(n_dc, 1)
        if not allow_mixed:
            n_dc = 1
    dchoices = []
    for nm in ["w", "q"][:n_dc]:
        dchoices.append({"name": nm, "n": rng.choice([2, 3, 3, 4]) if (use_filter and nm == "w") else rng.choice([2, 2, 3])})

    # ---- continuous state ----------------------------------------------------------
    cstate = None
    cchoices = []
    if has_a:
        scale = rng.choice(["lin", "lin", "log"])
        n = rng.choice([2, 3, 3, 4, 4, 5, 5, 6, 7])  # two-point grids are legal
        start = round(rng.uniform(0.4, 1.5), 3)
        stop = round(start + rng.uniform(4.0, 9.0), 3)
        node = pick("node", 0.3)
        has_s = node or rng.random() < 0.8
        trans = "node" if node else ("save" if has_s else "drift")
        cstate = {"name": "a", "scale": scale, "start": start, "stop": stop, "n": n, "trans": trans}
        if has_s:
            if node:
                cchoices.append({"name": "s", "scale": scale, "start": start, "stop": stop, "n": n})
            else:
                sn = rng.randint(3, 9)
                sscale = rng.choice(["lin", "lin", "log"])
                sstart = start if sscale == "log" else round(rng.uniform(0.0, start), 3)
                sstop = round(stop * rng.uniform(0.6, 1.0), 3)
                cchoices.append({"name": "s", "scale": sscale, "start": sstart, "stop": sstop, "n": sn})
    if rng.random() < (0.45 if has_a else 0.6) or (not dchoices and not cchoices):
        en = rng.randint(3, 6)
        while cchoices and en == cchoices[0]["n"] and rng.random() < 0.75:
            en = rng.randint(3, 7)  # mostly unequal grid sizes (a swap of the two axes then shows in the shapes), sometimes equal
        cchoices.append({"name": "e", "scale": "lin", "start": 0.0, "stop": round(rng.uniform(0.8, 1.6), 3), "n": en})
    rng.shuffle(cchoices)

    # ---- second continuous state (two-dimensional interpolation of the continuation value) ------
    cstate2 = None
    if has_a and pick("cstate2", 0.3):
        bscale = rng.choice(["lin", "lin", "log"])
        bstart = round(rng.uniform(0.5, 2.0), 3)
        cstate2 = {
            "name": "b", "scale": bscale, "start": bstart, "stop": round(bstart + rng.uniform(2.0, 5.0), 3),
            "n": rng.choice([2, 3, 3, 4, 5]), "trans": rng.choice(["keep", "bdrift", "bmix"]),
        }

    # ---- discrete states -----------------------------------------------------------
    dstates = []
    force_pair = use_filter and rng.random() < 0.4  # two filter-restricted states (l, h)
    want_l = use_filter or rng.random() < 0.5
    want_h = force_pair or stochastic or (not has_a and not want_l) or rng.random() < (0.6 if use_filter else 0.35)
    if want_l:
        nl = rng.choice([2, 2, 3])
        if dchoices:
            rules = ["copy", "absorb", "cycle", "age", "keep"]
        else:
            rules = ["age", "keep", "cycle0"]
        if use_filter:
            rules = ["copy", "absorb", "keep", "age"]
        dstates.append({"name": "l", "n": nl, "trans": {"kind": "det", "rule": rng.choice(rules)}})
    if want_h:
        nh = rng.choice([2, 3, 3, 4]) if stochastic else rng.choice([2, 3])
        if force_pair:
            dstates.append({"name": "h", "n": rng.choice([2, 3]), "trans": {"kind": "det", "rule": "keep"}})
        elif stochastic:
            cands = ["h"]
            if want_l and not use_filter:
                cands.append("l")
            elif want_l:
                cands.append("l")
            cands += [c["name"] for c in dchoices if not (use_filter and False)]
            if n_periods > 1:
                cands.append("_period")
            k = rng.randint(1, min(3, len(cands)))  # >= 1: lcm cannot simulate a dependency-free stochastic state
            deps = rng.sample(cands, k)
            dstates.append({"name": "h", "n": nh, "trans": {"kind": "stoch", "deps": deps}})
        else:
            rules = ["keep", "age", "cycle0"] + (["flip"] if want_l else [])
            dstates.append({"name": "h", "n": nh, "trans": {"kind": "det", "rule": rng.choice(rules)}})
    # second stochastic state sometimes
    if stochastic and (force_pair or rng.random() < (0.6 if want.get("two_stochastic") else 0.25)) and not any(
        d["name"] == "z" for d in dstates
    ):
        cands = ["z"] + (["h"] if any(d["name"] == "h" for d in dstates) else []) + [c["name"] for c in dchoices] + (["_period"] if n_periods > 1 else [])
        deps = rng.sample(cands, rng.randint(1, min(2, len(cands))))
        dstates.append({"name": "z", "n": rng.choice([2, 3]), "trans": {"kind": "stoch", "deps": deps}})
    if not dstates and not has_a:
        dstates.append({"name": "l", "n": 2, "trans": {"kind": "det", "rule": "cycle0"}})
    rng.shuffle(dstates)

    # ---- filter --------------------------------------------------------------------
    filt = None
    if use_filter:
        ld = next(d for d in dstates if d["name"] == "l")
        hdet = next((d for d in dstates if d["name"] == "h" and d["trans"]["kind"] == "det"), None)
        hany = next((d for d in dstates if d["name"] == "h"), None)
        u = rng.random()
        step = rng.choice([1, 1, 2, 3])
        choice2 = "q" if (len(dchoices) == 2 and rng.random() < 0.4) else None
        if hdet is not None and (force_pair or u < 0.3):
            # two restricted states; the corner (and possibly more) of their product is excluded
            hdet["trans"]["rule"] = "keep"
            K = ld["n"] + hdet["n"] - 3
            if ld["n"] == 3 and rng.random() < 0.5:
                K -= 1
            filt = {"kind": "pair", "choice": "w", "choice2": choice2, "state": "l", "state2": "h", "K": K, "from_period": 1, "step": step}
        else:
            kind = "lock"
            if n_periods > 1:
                # period-dependent admissible sets are where solver and simulation bookkeeping can drift apart
                kind = rng.choice(["lock", "lock", "lock_period"] if n_periods == 2 else ["lock", "lock_period", "lock_period"])
            st = "h" if (hany is not None and rng.random() < 0.3) else "l"
            filt = {"kind": kind, "choice": "w", "choice2": choice2, "state": st, "from_period": rng.randint(1, max(1, n_periods - 1)), "step": step}

    if filt:
        # which end of the choice grid the restriction cuts off: "high" keeps the largest labels
        # (w >= threshold), "low" keeps the smallest (w <= top - threshold); either way the admissible
        # set is never empty, but with "low" the LAST combination of the product is often infeasible
        # "unlock_*": the admissible set GROWS with the restricted state (experience unlocks options), so
        # that the numbers of feasible choices per state come in increasing order (1, 2, 3) as well
        filt["dir"] = rng.choice(["high", "high", "low", "unlock_low", "unlock_high"])
        filt["named_constants"] = rng.random() < 0.5

    # a second filter function; together with the first one the model then has filters with
    # mixed period dependence (one takes _period, the other does not)
    # (not with "unlock_low": there the first label is the only admissible one in the first state)
    if filt and filt["dir"] != "unlock_low" and n_periods >= 2 and rng.random() < (0.45 if n_periods == 2 else 0.6):
        filt["gate_from"] = rng.randint(1, max(1, n_periods - 1))

    # ---- auxiliaries, constraints, coefficients ----------------------------------------
    has_age = rng.random() < 0.5
    # without income the budget constraint is `s <= a`: with a node-to-node transition the optimum (save
    # everything) then lies EXACTLY on the constraint boundary in every period
    has_income = (rng.random() < 0.8) if has_a else (rng.random() < 0.5)
    constraints = []
    if cstate and any(c["name"] == "s" for c in cchoices):
        constraints.append({"kind": "budget", "slack_param": rng.random() < 0.4})
    if any(c["name"] == "e" for c in cchoices) and dchoices and rng.random() < 0.4:
        constraints.append({"kind": "effort", "choice": dchoices[0]["name"]})

    coef = {}
    for v in [d["name"] for d in dstates] + [c["name"] for c in dchoices]:
        coef[f"c1_{v}"] = _gen_coef(rng)
        coef[f"c2_{v}"] = _gen_coef(rng, 0.05, 0.4)
    for d in dstates:
        for c in dchoices:
            coef[f"x_{d['name']}_{c['name']}"] = _gen_coef(rng, 0.1, 0.9)
    if len(dchoices) == 2:
        coef["x_w_q"] = _gen_coef(rng, 0.1, 0.6)
    coef["e0"] = rng.uniform(0.2, 0.7)
    coef["e1"] = rng.uniform(0.05, 0.3)
    coef["ke"] = rng.uniform(0.5, 2.0)
    coef["page"] = _gen_coef(rng, 0.02, 0.08)
    coef["y"] = rng.uniform(0.05, 0.6)
    coef["sdir"] = _gen_coef(rng, 0.011, 0.037)
    if cstate2:
        coef["gb"] = rng.uniform(0.2, 0.8)
        coef["xab"] = _gen_coef(rng, 0.05, 0.3)
        coef["yb"] = rng.uniform(0.05, 0.5)

    states_order = [d["name"] for d in dstates] + (["a"] if cstate else []) + (["b"] if cstate2 else [])
    rng.shuffle(states_order)
    choices_order = [c["name"] for c in dchoices] + [c["name"] for c in cchoices]
    rng.shuffle(choices_order)

    recipe = {
        "name": name,
        "n_periods": n_periods,
        "dstates": dstates,
        "cstate": cstate,
        "cstate2": cstate2,
        "dchoices": dchoices,
        "cchoices": cchoices,
        "filter": filt,
        "constraints": constraints,
        "has_age": has_age,
        "has_income": has_income,
        "coef": coef,
        "states_order": states_order,
        "choices_order": choices_order,
        "func_shuffle": rng.randint(0, 10**6),
    }
    return recipe


# ======================================================================================
# rendering
# ======================================================================================


def _dstate(recipe, name):
    for d in recipe["dstates"]:
        if d["name"] == name:
            return d
    return None


def _dchoice(recipe, name):
    for d in recipe["dchoices"]:
        if d["name"] == name:
            return d
    return None


def _cchoice(recipe, name):
    for d in recipe["cchoices"]:
        if d["name"] == name:
            return d
    return None


def render(recipe: dict) -> tuple[str, dict]:
    """Return (python source, meta).

    meta: functions (declaration order), fn_params {fname: [param names]},
    stochastic {state: deps}, next_det [names], aux [names], constraints, filters.
    """
    import random

    c = recipe["coef"]
    ds = [d["name"] for d in recipe["dstates"]]
    dc = [d["name"] for d in recipe["dchoices"]]
    cc = [d["name"] for d in recipe["cchoices"]]
    has_a = recipe["cstate"] is not None
    has_s = "s" in cc
    has_e = "e" in cc
    has_age = recipe["has_age"]
    has_income = recipe["has_income"]
    first_dc = dc[0] if dc else None

    funcs: dict[str, tuple[list[str], list[str], list[str]]] = {}  # name -> (args, params, body)
    stochastic = {}

    def add(name, args, params, body, deco=None):
        funcs[name] = (list(args), list(params), list(body), deco)

    # ---- age ----------------------------------------------------------------------------
    if has_age:
        add("age", ["_period"], [], ["return _period + 18"])

    # ---- income -------------------------------------------------------------------------
    if has_income:
        args = []
        expr = "1.0"
        if first_dc:
            args.append(first_dc)
            expr += f" + 0.4 * {first_dc}"
        if has_e:
            args.append("e")
            expr += " + 0.25 * e"
        if "h" in ds:
            args.append("h")
            expr += " + 0.15 * h"
        body = [f"base = wage * ({expr})"]
        if has_age:
            args.append("age")
            body.append("base = base + k * (age - 18)")
            body.append("return base")
            params = ["wage", "k"]
        else:
            body.append("return base + k")
            params = ["wage", "k"]
        add("income", args, params, body)

    # ---- cons ---------------------------------------------------------------------------
    has_cons = has_income
    if has_cons:
        if has_a and has_s:
            add("cons", ["a", "s", "income"], [], ["return a + income - s"])
        elif has_a:
            add("cons", ["a", "income"], [], ["return 0.3 * a + income"])
        else:
            add("cons", ["income"], [], ["return income"])

    # ---- utility ------------------------------------------------------------------------
    uargs = list(recipe["states_order"]) + list(recipe["choices_order"])
    uparams = []
    body = ["u = 0.0"]
    if has_cons:
        uargs.append("cons")
        uparams += ["g", "k"]
        body.append("u = u - k * xp.exp(-g * cons)")
        if has_s:
            # tiny direct taste for saving: keeps the last-period problem strictly monotone
            body.append(f"u = u + {_lit(c['sdir'])} * s")
    elif has_a:
        uparams += ["g"]
        body.append("u = u + g * xp.log(1.0 + a)")
    if recipe.get("cstate2"):
        body.append(f"u = u + {_lit(c['gb'])} * xp.log(1.0 + b) + {_lit(c['xab'])} * a * b / (1.0 + a + b)")
    for v in ds + dc:
        body.append(f"u = u + {_lit(c['c1_' + v])} * {v} + {_lit(c['c2_' + v])} * {v} * {v}")
    for d in ds:
        for ch in dc:
            body.append(f"u = u + {_lit(c['x_' + d + '_' + ch])} * {d} * {ch}")
    if len(dc) == 2:
        body.append(f"u = u + {_lit(c['x_w_q'])} * w * q")
    if has_e:
        shift = f"{_lit(c['e0'])}"
        if ds:
            shift += f" + {_lit(c['e1'])} * {ds[0]}"
        uparams.append("ke")
        body.append(f"u = u - ke * (e - ({shift})) ** 2")
    if has_age and dc:
        uargs.append("age")
        body.append(f"u = u + {_lit(c['page'])} * (age - 18) * {dc[0]}")
    elif has_age:
        uargs.append("age")
        body.append(f"u = u + {_lit(c['page'])} * (age - 18)")
    if not has_cons and has_s:
        body.append(f"u = u + {_lit(c['sdir'])} * s")
    body.append("return u")
    add("utility", uargs, list(dict.fromkeys(uparams)), body)

    # ---- transitions --------------------------------------------------------------------
    if has_a:
        cs = recipe["cstate"]
        lo = cs["start"]
        hi = cs["stop"] if cs["scale"] == "log" else round(cs["stop"] * 1.15, 6)
        if cs["trans"] == "node":
            add("next_a", ["s"], [], ["return s"])
        elif cs["trans"] == "save":
            args = ["s"]
            expr = f"(1.0 + r) * s + {_lit(c['y'])}"
            if first_dc:
                args.append(first_dc)
                expr += f" + 0.2 * {first_dc}"
            add("next_a", args, ["r"], [f"return xp.clip({expr}, {_lit(lo)}, {_lit(hi)})"])
        else:  # drift
            args = ["a"]
            expr = f"0.7 * (1.0 + r) * a + {_lit(c['y'])}"
            if has_income:
                args.append("income")
                expr += " + 0.5 * income"
            add("next_a", args, ["r"], [f"return xp.clip({expr}, {_lit(lo)}, {_lit(hi)})"])
    if recipe.get("cstate2"):
        cb = recipe["cstate2"]
        lo_b = cb["start"]
        hi_b = cb["stop"] if cb["scale"] == "log" else round(cb["stop"] * 1.15, 6)
        if cb["trans"] == "keep":
            add("next_b", ["b"], [], ["return b"])
        elif cb["trans"] == "bdrift":
            args = ["b"]
            expr = f"0.7 * b + {_lit(c['yb'])}"
            if first_dc:
                args.append(first_dc)
                expr += f" + 0.2 * {first_dc}"
            add("next_b", args, [], [f"return xp.clip({expr}, {_lit(lo_b)}, {_lit(hi_b)})"])
        else:  # bmix
            add("next_b", ["b", "a"], [], [f"return xp.clip(0.5 * b + 0.1 * a + {_lit(c['yb'])}, {_lit(lo_b)}, {_lit(hi_b)})"])
    pair = recipe["filter"] if (recipe["filter"] and recipe["filter"]["kind"] == "pair") else None

    def add_next(name, args, params, body_expr):
        if pair and name == "next_" + pair["state"]:
            if pair["state2"] not in args:
                args = [*args, pair["state2"]]
            body_expr = f"xp.minimum({body_expr}, {pair['K']} - {pair['state2']})"
        add(name, args, params, [f"return {body_expr}"])

    for d in recipe["dstates"]:
        nm, n, tr = d["name"], d["n"], d["trans"]
        if tr["kind"] == "stoch":
            deps = list(tr["deps"])
            stochastic[nm] = deps
            add(f"next_{nm}", deps, [], ["pass"], deco="stochastic")
            continue
        rule = tr["rule"]
        w = first_dc
        if rule == "copy" and w:
            add_next(f"next_{nm}", [w], [], f"xp.minimum({w}, {n - 1})")
        elif rule == "absorb" and w:
            add_next(f"next_{nm}", [nm, w], [], f"xp.maximum({nm}, xp.minimum({w}, {n - 1}))")
        elif rule == "cycle" and w:
            add_next(f"next_{nm}", [nm, w, "_period"], [], f"({nm} + {w} + _period) % {n}")
        elif rule == "age":
            add_next(f"next_{nm}", [nm], [], f"xp.minimum({nm} + 1, {n - 1})")
        elif rule == "flip" and "l" in ds and nm != "l":
            add_next(f"next_{nm}", [nm, "l"], [], f"({nm} + l) % {n}")
        elif rule in ("cycle0", "cycle", "copy", "absorb", "flip"):
            add_next(f"next_{nm}", [nm, "_period"], [], f"({nm} + 1 + _period) % {n}")
        else:  # keep
            add_next(f"next_{nm}", [nm], [], f"{nm}")

    # ---- constraints --------------------------------------------------------------------
    for con in recipe["constraints"]:
        if con["kind"] == "budget":
            args = ["s", "a"] + (["income"] if has_income else [])
            rhs = "a" + (" + income" if has_income else "")
            if con.get("slack_param"):
                add("budget_constraint", args, ["slack"], [f"return s <= {rhs} + slack"])
            else:
                add("budget_constraint", args, [], [f"return s <= {rhs}"])
        elif con["kind"] == "effort":
            ch = con["choice"]
            add("effort_constraint", ["e", ch], [], [f"return e <= 0.45 + 0.6 * {ch}"])

    # ---- filter -------------------------------------------------------------------------
    header_consts = {}
    filt = recipe["filter"]
    if filt:
        w, l = filt["choice"], filt["state"]
        w2 = filt.get("choice2")
        top = _dchoice(recipe, w)["n"] - 1 + ((_dchoice(recipe, w2)["n"] - 1) if w2 else 0)
        lhs = w + (f" + {w2}" if w2 else "")
        # threshold 0 for the first label of the state (everything passes), increasing with the
        # state, never above the largest choice (which therefore always passes)
        # the numbers of the rule are literals in the function body, or (as users write thresholds and ages)
        # module-level constants that the function merely refers to
        named = bool(filt.get("named_constants"))
        c_step = "FILTER_STEP" if named else str(filt.get("step", 1))
        c_from = "FILTER_FROM" if named else str(filt["from_period"])
        c_gate = "FILTER_GATE" if named else str(filt.get("gate_from"))
        c_k = "FILTER_K" if named else str(filt.get("K"))
        if named:
            header_consts.update({"FILTER_STEP": filt.get("step", 1), "FILTER_FROM": filt["from_period"], "FILTER_GATE": filt.get("gate_from"), "FILTER_K": filt.get("K")})
        thr = f"xp.minimum({l} * {c_step}, {top})"
        if filt.get("dir", "high") == "low":
            cond = f"{lhs} <= {top} - {thr}"
        elif filt.get("dir") == "unlock_low":
            cond = f"{lhs} <= {thr}"
        elif filt.get("dir") == "unlock_high":
            cond = f"{lhs} >= {top} - {thr}"
        else:
            cond = f"{lhs} >= {thr}"
        fargs = [w] + ([w2] if w2 else []) + [l]
        if filt["kind"] == "lock":
            add("lock_filter", fargs, [], [f"return {cond}"])
        elif filt["kind"] == "pair":
            l2 = filt["state2"]
            add("lock_filter", [*fargs, l2], [], [f"return xp.logical_and({l} + {l2} <= {c_k}, {cond})"])
        else:
            add("lock_filter", [*fargs, "_period"], [], [f"return xp.logical_or({cond}, _period >= {c_from})"])
        if filt.get("gate_from") is not None:
            # the first label of the choice is not available before period gate_from
            # (only in the first label of the restricted state; every filter involves a state)
            add(
                "gate_filter",
                [w, l, "_period"],
                [],
                [f"return xp.logical_or(xp.logical_or({w} >= 1, {l} >= 1), _period >= {c_gate})"],
            )

    # ---- declaration order ----------------------------------------------------------------
    names = list(funcs)
    random.Random(recipe["func_shuffle"]).shuffle(names)

    lines = [f"{k} = {v!r}" for k, v in header_consts.items() if v is not None]
    if lines:
        lines.append("")
    for nm in names:
        args, params, body, deco = funcs[nm]
        if deco == "stochastic":
            lines.append("@_stochastic")
        lines.append(f"def {nm}({', '.join(args + params)}):")
        lines.append(f"    _hit({nm!r})")
        for b in body:
            lines.append("    " + b)
        lines.append("")
    lines.append(f"FUNCTION_ORDER = {names!r}")
    source = "\n".join(lines) + "\n"

    meta = {
        "functions": names,
        "fn_args": {nm: funcs[nm][0] for nm in names},
        "fn_params": {nm: funcs[nm][1] for nm in names},
        "stochastic": stochastic,
        "next_det": [nm for nm in names if nm.startswith("next_") and funcs[nm][3] is None],
        "aux": [nm for nm in names if nm in ("age", "income", "cons")],
        "constraints": [nm for nm in names if nm.endswith("_constraint")],
        "filters": [nm for nm in names if nm.endswith("_filter")],
    }
    return source, meta


def compile_functions(recipe: dict, xp, hit=None, stochastic_deco=None) -> tuple[dict, dict]:
    """Execute the rendered source; return (functions in declaration order, meta)."""
    import linecache

    source, meta = render(recipe)
    filename = f"{CAT_FILENAME_PREFIX}{recipe['name']}>"
    ns = {
        "xp": xp,
        "_hit": hit if hit is not None else (lambda _name: None),
        "_stochastic": stochastic_deco if stochastic_deco is not None else (lambda f: f),
    }
    code = compile(source, filename, "exec")
    exec(code, ns)  # noqa: S102 - harness-owned source
    linecache.cache[filename] = (len(source), None, source.splitlines(True), filename)
    fns = {nm: ns[nm] for nm in ns["FUNCTION_ORDER"]}
    return fns, meta


def build_model(recipe: dict, fns: dict, lcm_mod):
    """Build the lcm Model from a recipe and its compiled (jnp) functions."""
    from dataclasses import make_dataclass

    def dgrid(nm, n):
        cls = make_dataclass(f"Cat_{recipe['name']}_{nm}", [(f"c{i}", int, i) for i in range(n)])
        return lcm_mod.DiscreteGrid(cls)

    def cgrid(spec):
        cls = lcm_mod.LinspaceGrid if spec["scale"] == "lin" else lcm_mod.LogspaceGrid
        return cls(start=spec["start"], stop=spec["stop"], n_points=spec["n"])

    states = {}
    for nm in recipe["states_order"]:
        if nm == "a":
            states[nm] = cgrid(recipe["cstate"])
        elif nm == "b":
            states[nm] = cgrid(recipe["cstate2"])
        else:
            states[nm] = dgrid(nm, _dstate(recipe, nm)["n"])
    choices = {}
    for nm in recipe["choices_order"]:
        d = _dchoice(recipe, nm)
        choices[nm] = dgrid(nm, d["n"]) if d else cgrid(_cchoice(recipe, nm))
    return lcm_mod.Model(
        description=recipe.get("description", recipe["name"]),
        n_periods=recipe["n_periods"],
        functions=dict(fns),
        choices=choices,
        states=states,
    )


# ======================================================================================
# parameters and transition arrays
# ======================================================================================


def gen_params(rng, recipe: dict, meta: dict, sparsity: float = 0.0) -> dict:
    """Parameter values following the template structure, as plain python data."""
    vals = {
        "g": lambda: round(rng.uniform(0.15, 0.55), 9),
        "k": lambda: round(rng.uniform(0.6, 2.2), 9),
        "ke": lambda: round(rng.uniform(0.6, 2.5), 9),
        "wage": lambda: round(rng.uniform(0.5, 2.0), 9),
        "r": lambda: round(rng.uniform(0.0, 0.12), 9),
        "slack": lambda: round(rng.uniform(0.0, 0.2), 9),
    }
    params: dict = {"beta": round(rng.uniform(0.8, 0.99), 9)}
    for fn in meta["functions"]:
        params[fn] = {p: vals[p]() for p in sorted(meta["fn_params"][fn])}
    # income 'k' is an additive drift, keep it small so that income stays positive
    if "income" in params and "k" in params["income"]:
        params["income"]["k"] = round(rng.uniform(0.01, 0.08), 9)
    # users write integer-valued start values as integers (wage=2, k=1): at most one leaf per set,
    # a multiplicative coefficient only (the other coefficients stay generic reals: no exact ties)
    if rng.random() < 0.3:
        cands = [(fn, p) for fn in meta["functions"] for p in sorted(meta["fn_params"][fn]) if p in ("k", "ke", "wage") and not (fn == "income" and p == "k")]
        if cands:
            fn, p = rng.choice(cands)
            params[fn][p] = float(rng.choice([1, 2]))
    if meta["stochastic"]:
        params["shocks"] = {
            st: gen_transition_array(rng, recipe, st, deps, sparsity) for st, deps in meta["stochastic"].items()
        }
    return params


def dep_size(recipe: dict, dep: str) -> int:
    if dep == "_period":
        return recipe["n_periods"]
    d = _dstate(recipe, dep) or _dchoice(recipe, dep)
    return d["n"]


def gen_transition_array(rng, recipe: dict, state: str, deps: list[str], sparsity: float = 0.0):
    """Nested list with shape (*dep sizes in signature order, n_labels).

    Rows: Dirichlet-like, with structural zeros and some degenerate rows.
    """
    n = _dstate(recipe, state)["n"]
    dims = [dep_size(recipe, d) for d in deps]

    def row():
        u = rng.random()
        if sparsity and rng.random() < sparsity:
            # rows with many structural zeros: a wrongly selected row shows as an impossible move
            r = [0.0] * n
            k = rng.sample(range(n), rng.choice([1, 1, 2]) if n > 2 else 1)
            if len(k) == 1:
                r[k[0]] = 1.0
            else:
                x = round(rng.uniform(0.2, 0.8), 6)
                r[k[0]], r[k[1]] = x, round(1.0 - x, 6)
            return r
        if u < 0.12:
            r = [0.0] * n
            r[rng.randrange(n)] = 1.0
            return r
        w = [rng.gammavariate(rng.choice([0.5, 1.0, 3.0]), 1.0) + 1e-3 for _ in range(n)]
        if n > 2 and u < 0.45:
            w[rng.randrange(n)] = 0.0
        elif n == 2 and u < 0.2:
            w[rng.randrange(n)] = 0.0
        tot = sum(w)
        r = [round(x / tot, 6) for x in w]
        # make the row sum to one exactly in the rounded representation
        j = max(range(n), key=lambda i: r[i])
        r[j] = round(1.0 - sum(r[:j] + r[j + 1 :]), 6)
        return r

    def build(level):
        if level == len(dims):
            return row()
        return [build(level + 1) for _ in range(dims[level])]

    return build(0)


# ======================================================================================
# agents
# ======================================================================================


def gen_agent(rng, recipe: dict, on_grid_bias: float = 0.4) -> dict:
    """One initial state: discrete labels as ints; continuous as ["n", idx] or ["v", x]."""
    ag = {}
    for d in recipe["dstates"]:
        ag[d["name"]] = rng.randrange(d["n"])
    f = recipe.get("filter")
    if f and f["kind"] == "pair":
        # initial states must lie in the (filter-)feasible part of the state space
        ag[f["state"]] = min(ag[f["state"]], f["K"] - ag[f["state2"]])
    cs = recipe["cstate"]
    if cs:
        u = rng.random()
        if u < on_grid_bias:
            ag["a"] = ["n", rng.randrange(cs["n"])]
        elif u < 0.9 or cs["scale"] == "log":
            ag["a"] = ["v", round(rng.uniform(cs["start"], cs["stop"]), 6)]
        else:  # beyond the last grid point: legal on linear grids (extrapolated)
            ag["a"] = ["v", round(rng.uniform(cs["stop"], cs["stop"] * 1.3), 6)]
    cb = recipe.get("cstate2")
    if cb:
        u = rng.random()
        if u < max(on_grid_bias, 0.5):
            ag["b"] = ["n", rng.randrange(cb["n"])]
        elif u < 0.93 or cb["scale"] == "log":
            ag["b"] = ["v", round(rng.uniform(cb["start"], cb["stop"]), 6)]
        else:
            ag["b"] = ["v", round(rng.uniform(cb["stop"], cb["stop"] * 1.2), 6)]
    return ag


def grid_values(spec: dict):
    """numpy replica of the grid (used only to *detect* on-grid states)."""
    import numpy as np

    if spec["scale"] == "lin":
        return np.linspace(spec["start"], spec["stop"], spec["n"])
    return np.exp(np.linspace(np.log(spec["start"]), np.log(spec["stop"]), spec["n"]))


def all_discrete_state_combos(recipe: dict):
    names = [d["name"] for d in recipe["dstates"]]
    for combo in itertools.product(*[range(d["n"]) for d in recipe["dstates"]]):
        yield dict(zip(names, combo, strict=True))


def expand_agents(recipe: dict, agents):
    """Batches may store their agents explicitly or as a seeded generator (large panels)."""
    if isinstance(agents, dict):
        import random

        rng = random.Random(agents["gen_seed"])
        return [gen_agent(rng, recipe, agents.get("on_grid_bias", 0.4)) for _ in range(agents["n"])]
    return agents


def perturb_params(rng, recipe: dict, meta: dict, base: dict, sparsity: float = 0.0) -> dict:
    """A neighbour of ``base``: one or two leaves changed, everything else identical."""
    import copy

    out = copy.deepcopy(base)
    leaves = [("beta",)]
    for fn in meta["functions"]:
        for pn in meta["fn_params"][fn]:
            leaves.append((fn, pn))
    for st in meta["stochastic"]:
        leaves.append(("shocks", st))
    # beta is the only top-level leaf: change it only sometimes
    pool = [lf for lf in leaves if lf != ("beta",)] or leaves
    chosen = rng.sample(pool, min(len(pool), rng.choice([1, 1, 2])))
    if rng.random() < 0.15:
        chosen.append(("beta",))
    fresh = gen_params(rng, recipe, meta, sparsity)
    for lf in chosen:
        if lf == ("beta",):
            out["beta"] = fresh["beta"]
        elif lf[0] == "shocks":
            out["shocks"][lf[1]] = fresh["shocks"][lf[1]]
        else:
            out[lf[0]][lf[1]] = fresh[lf[0]][lf[1]]
    return out


def fd_leaves(meta: dict) -> list:
    out = [("beta",)]
    for fn in meta["functions"]:
        for pn in meta["fn_params"][fn]:
            out.append((fn, pn))
    return out


def fd_neighbour_params(rng, recipe: dict, meta: dict, base: dict, leaf=None, step=None) -> dict:
    """A finite-difference neighbour of ``base``: ONE scalar leaf moved by a relative step of
    1e-7..1e-5 (what a numerical optimiser does thousands of times between two calls).  A result
    served from anything keyed by rounded / single-precision / 'close enough' parameter values is
    off by about the step, far above the comparison tolerance."""
    import copy

    out = copy.deepcopy(base)
    leaves = [("beta",)]
    for fn in meta["functions"]:
        for pn in meta["fn_params"][fn]:
            leaves.append((fn, pn))
    lf = tuple(leaf) if leaf is not None else rng.choice(leaves)
    step = step if step is not None else rng.choice([1e-7, -1e-7, 1e-6, 1e-5, -1e-5])
    if lf == ("beta",):
        out["beta"] = min(0.999, base["beta"] * (1.0 + step))
    else:
        v = base[lf[0]][lf[1]]
        out[lf[0]][lf[1]] = v * (1.0 + step) if v != 0 else abs(step)
    return out


def sibling_recipe(rng, recipe: dict, name: str) -> dict:
    """A variant of ``recipe`` as a user would write it when comparing specifications in one
    session: same variable and function names, one thing changed."""
    import copy

    r = copy.deepcopy(recipe)
    r["name"] = name
    opts = ["coef", "coef", "periods", "func_order"]
    if r["cstate"]:
        opts += ["a_scale", "a_scale", "a_scale", "a_n", "a_range", "a_range"]
    if r.get("cstate2"):
        opts += ["b_scale", "b_range"]
    if any(c["name"] == "e" for c in r["cchoices"]):
        opts.append("e_n")
    if r["filter"]:
        opts += ["filter_step"] * 3
    ld = next((d for d in r["dstates"] if d["name"] == "l" and d["trans"]["kind"] == "det"), None)
    if ld is not None:
        opts += ["trans_rule"] * 2
    what = rng.choice(opts)
    if r["filter"] and rng.random() < 0.35:
        what = "filter_step"  # the admissible-choice rule is what two specifications typically differ in
    if what == "coef":
        k = rng.choice(sorted(r["coef"]))
        r["coef"][k] = r["coef"][k] * rng.uniform(0.5, 1.5) + 0.01
    elif what == "periods":
        r["n_periods"] = max(1, r["n_periods"] + rng.choice([-1, 1]))
        # dependency on the period only makes sense with more than one period
        if r["n_periods"] == 1:
            for d in r["dstates"]:
                if d["trans"]["kind"] == "stoch" and "_period" in d["trans"]["deps"] and len(d["trans"]["deps"]) > 1:
                    d["trans"]["deps"] = [x for x in d["trans"]["deps"] if x != "_period"]
        if r["filter"]:
            r["filter"]["from_period"] = min(r["filter"]["from_period"], max(1, r["n_periods"] - 1))
            if r["filter"].get("gate_from") is not None:
                r["filter"]["gate_from"] = min(r["filter"]["gate_from"], max(1, r["n_periods"] - 1))
    elif what == "func_order":
        r["func_shuffle"] = rng.randint(0, 10**6)
    elif what == "a_scale":
        cs = r["cstate"]
        cs["scale"] = "log" if cs["scale"] == "lin" else "lin"
        for c in r["cchoices"]:
            if c["name"] == "s" and cs["trans"] == "node":
                c["scale"] = cs["scale"]
    elif what == "a_n":
        cs = r["cstate"]
        cs["n"] = cs["n"] + 1 if cs["n"] < 7 else cs["n"] - 1
        for c in r["cchoices"]:
            if c["name"] == "s" and cs["trans"] == "node":
                c["n"] = cs["n"]
    elif what == "e_n":
        for c in r["cchoices"]:
            if c["name"] == "e":
                c["n"] = c["n"] + 1
    elif what == "filter_step":
        r["filter"]["step"] = 1 if r["filter"].get("step", 1) != 1 else 2
    elif what == "a_range":
        # same number of points, another range (a robustness check of the grid)
        cs = r["cstate"]
        cs["stop"] = round(cs["stop"] * rng.choice([0.8, 1.25]), 3)
        for c in r["cchoices"]:
            if c["name"] == "s" and cs["trans"] == "node":
                c["stop"] = cs["stop"]
    elif what == "b_scale":
        r["cstate2"]["scale"] = "log" if r["cstate2"]["scale"] == "lin" else "lin"
    elif what == "b_range":
        r["cstate2"]["stop"] = round(r["cstate2"]["stop"] * rng.choice([0.8, 1.25]), 3)
    elif what == "trans_rule":
        # the same function name (next_l) with another body
        if r["filter"]:
            rules = ["copy", "absorb", "keep", "age"]
        elif r["dchoices"]:
            rules = ["copy", "absorb", "cycle", "age", "keep"]
        else:
            rules = ["age", "keep", "cycle0"]
        ld["trans"]["rule"] = rng.choice([x for x in rules if x != ld["trans"]["rule"]])
    # a user who edits a specification usually keeps its description
    if rng.random() < 0.5:
        r["description"] = recipe.get("description", recipe["name"])
    r["sibling_of"] = recipe["name"]
    r["sibling_change"] = what
    return r
