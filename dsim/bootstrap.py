"""Incarnation bootstrap (DESIGN 3.1, 3.3): must run before lcm is imported.

* x64 (the repository's own test configuration), gc disabled (collection is an operation)
* ``jax.util`` stand-in - only if the installed JAX lacks it
* ``jax.jit`` replaced by a thin wrapper that makes the per-object compile lock visible to
  the simulated scheduler (delegates to the real ``jax.jit``)
"""

from __future__ import annotations

import functools
import gc
import os
import sys
import types

STATE = {"booted": False, "jax_util_stub": False, "sched": None, "real_jit": None}


def _install_jax_util_stub(jax):
    if hasattr(jax, "util"):
        return False
    try:
        import importlib

        importlib.import_module("jax.util")
        return False
    except Exception:  # noqa: BLE001
        pass
    mod = types.ModuleType("jax.util")

    def safe_zip(*args):
        return list(zip(*args, strict=True))

    def unzip2(pairs):
        xs, ys = [], []
        for x, y in pairs:
            xs.append(x)
            ys.append(y)
        return tuple(xs), tuple(ys)

    mod.safe_zip = safe_zip
    mod.unzip2 = unzip2
    mod.__dsim_stub__ = True
    sys.modules["jax.util"] = mod
    jax.util = mod
    return True


class SimMutex:
    __slots__ = ("owner", "depth", "name", "waiters")

    def __init__(self, name):
        self.owner = None
        self.depth = 0
        self.name = name
        self.waiters = 0


class SimJit:
    """Wrapper around a real jitted callable with a scheduler-visible re-entrant mutex."""

    def __init__(self, real, name):
        self._real = real
        self._mutex = SimMutex(name)
        try:
            functools.update_wrapper(self, real)
        except Exception:  # noqa: BLE001
            pass

    def __call__(self, *args, **kwargs):
        sched = STATE["sched"]
        if sched is None:
            return self._real(*args, **kwargs)
        sched.mutex_acquire(self._mutex)
        try:
            return self._real(*args, **kwargs)
        finally:
            sched.mutex_release(self._mutex)

    def __getattr__(self, item):
        return getattr(self.__dict__["_real"], item)

    def __get__(self, obj, objtype=None):
        if obj is None:
            return self
        return functools.partial(self, obj)


def _install_jit_wrapper(jax):
    real_jit = jax.jit
    STATE["real_jit"] = real_jit

    def sim_jit(fun=None, *args, **kwargs):
        if fun is None or not callable(fun):
            # used as decorator factory: jax.jit(static_argnums=...)(f)
            def deco(f):
                return sim_jit(f, *args, **kwargs)

            return deco
        real = real_jit(fun, *args, **kwargs)
        name = getattr(fun, "__name__", None) or type(fun).__name__
        return SimJit(real, name)

    sim_jit.__dsim_wrapper__ = True
    jax.jit = sim_jit


def boot(lcm_src: str | None = None):
    """Idempotent.  Returns the dict of facts about the environment."""
    if STATE["booted"]:
        return STATE
    gc.disable()
    if lcm_src:
        sys.path.insert(0, lcm_src)
    os.environ.setdefault("JAX_PLATFORMS", "cpu")
    import jax

    jax.config.update("jax_enable_x64", True)
    # import the jax submodules lcm uses *before* patching jax.jit so that jax's own lazily
    # imported code keeps the real jit
    import jax.numpy  # noqa: F401
    import jax.ops  # noqa: F401
    import jax.random  # noqa: F401
    import jax.scipy.special  # noqa: F401

    STATE["jax_util_stub"] = _install_jax_util_stub(jax)
    _install_jit_wrapper(jax)
    STATE["booted"] = True
    STATE["jax_version"] = jax.__version__
    return STATE
