"""Baton-passing scheduler over real threads (DESIGN 3.3).

Exactly one worker thread runs at any moment.  Pre-emption points are
  * line events of code under the lcm source tree or in catalogue functions (sys.settrace),
  * contended acquisitions of a simulated mutex (the jax.jit wrapper),
  * waits for another operation's result,
  * operation boundaries,
  * stalls of the log sink.
Who runs next, and for how many line events, is decided by a ``DecisionSource`` (seeded PRNG,
or an explicit list for replay).  Nothing here reads a clock or real randomness.
"""

from __future__ import annotations

import sys
import threading

INF_QUANTUM = 10**12


class SimCancelled(BaseException):
    """Asynchronous cancellation injected at a line event (KeyboardInterrupt-style)."""


class HarnessError(Exception):
    """Step cap, deadlock, internal inconsistency: never a property violation."""


class DecisionSource:
    """Yields (worker id, quantum) decisions; records what was decided."""

    def __init__(self, rng, quanta, weights, replay=None):
        self.rng = rng
        self.quanta = list(quanta)
        self.weights = list(weights)
        self.replay = list(replay) if replay is not None else None
        self.pos = 0
        self.made = []

    def decide(self, runnable_ids):
        runnable_ids = sorted(runnable_ids)
        if self.replay is not None:
            if self.pos < len(self.replay):
                wid, q = self.replay[self.pos]
                self.pos += 1
                if wid not in runnable_ids:
                    wid, q = runnable_ids[0], INF_QUANTUM
            else:
                wid, q = runnable_ids[0], INF_QUANTUM
        else:
            wid = runnable_ids[self.rng.randrange(len(runnable_ids))]
            q = self.rng.choices(self.quanta, self.weights)[0]
        self.made.append([wid, q])
        return wid, q

    def decide_after_write(self, others, self_id, p):
        """Right after a statement that writes to possibly shared memory: with probability ``p`` hand the
        baton to another worker for a long stretch.  Returns (worker id, quantum); the worker's own id
        means "carry on".  Recorded in the same decision list, so that a replay takes the same turns."""
        others = sorted(others)
        if self.replay is not None:
            wid, q = self_id, -1
            if self.pos < len(self.replay):
                wid, q = self.replay[self.pos]
                self.pos += 1
                if wid != self_id and wid not in others:
                    wid, q = self_id, -1
        elif self.rng.random() < p:
            wid = others[self.rng.randrange(len(others))]
            q = self.rng.choice([500, INF_QUANTUM, INF_QUANTUM])
        else:
            wid, q = self_id, -1
        self.made.append([wid, q])
        return wid, q


class Worker:
    def __init__(self, wid):
        self.id = wid
        self.sem = threading.Semaphore(0)
        self.state = "new"  # new | runnable | blocked | done
        self.blocked_on = None
        self.quantum = INF_QUANTUM
        self.op_events = 0  # line events inside the current operation
        self.total_events = 0
        self.opctx = None
        self.thread = None
        self.cancel_at = None
        self.error = None
        self.pending_writes = {}  # id(frame) -> (first, last) line of a shared-write statement in flight


class Scheduler:
    def __init__(self, decisions: DecisionSource, is_traced_code, log, step_cap=400_000, write_sites=None, write_p=0.0):
        self.decisions = decisions
        self.is_traced_code = is_traced_code
        self.log = log  # list of event tuples
        self.step_cap = step_cap
        self.workers: dict[int, Worker] = {}
        self.by_thread: dict[int, Worker] = {}
        self.done_ops: set = set()
        self.phase_done = threading.Event()
        self.fatal = None
        self._code_flag: dict = {}
        self.switches = 0
        self.preempt_sites: dict = {}
        self.overlap_probe = {"two_workers_inside_lcm": 0, "mutex_contention": 0, "preempted_in_jit": 0}
        self.jit_depth_by_worker: dict = {}
        # pre-emption right after statements that write to possibly shared memory (sharedwrites.py)
        self.write_sites = write_sites or {}
        self.write_p = write_p
        self._code_sites: dict = {}
        self.overlap_probe["shared_write_statements_executed"] = 0
        self.overlap_probe["preempted_after_shared_write"] = 0
        self.overlap_probe["preempted_before_shared_write"] = 0

    # ------------------------------------------------------------------ thread identity
    def current(self) -> Worker | None:
        return self.by_thread.get(threading.get_ident())

    # ------------------------------------------------------------------ tracing
    def _global_trace(self, frame, event, arg):  # noqa: ARG002
        code = frame.f_code
        flag = self._code_flag.get(code)
        if flag is None:
            flag = self.is_traced_code(code)
            self._code_flag[code] = flag
        if not flag:
            return None
        return self._local_trace

    def _local_trace(self, frame, event, arg):  # noqa: ARG002
        if event == "line":
            if self.write_sites:
                self._after_write_check(frame, frame.f_lineno)
            self.on_line(frame)
        elif event == "return" and self.write_sites:
            self._after_write_check(frame, -1)
        return self._local_trace

    def _after_write_check(self, frame, lineno):
        w = self.by_thread.get(threading.get_ident())
        if w is None:
            return
        fid = id(frame)
        rng_ = w.pending_writes.get(fid)
        if rng_ is not None and not (rng_[0] <= lineno <= rng_[1]):
            del w.pending_writes[fid]
            self._post_write(w, frame)
        if lineno < 0:
            return
        code = frame.f_code
        sites = self._code_sites.get(code)
        if sites is None:
            import os

            sites = self.write_sites.get(os.path.realpath(code.co_filename)) or False
            self._code_sites[code] = sites
        if sites:
            hit = sites.get(lineno)
            if hit is not None and fid not in w.pending_writes:
                w.pending_writes[fid] = hit
                self.overlap_probe["shared_write_statements_executed"] += 1
                # also right BEFORE the write: the check that led here may be stale by the time it acts
                self._post_write(w, frame, before=True)

    def _post_write(self, w, frame, before=False):
        if self.write_p <= 0 or len(self.workers) < 2:
            return
        others = self._runnable(exclude=w)
        if not others:
            return
        wid, q = self.decisions.decide_after_write(others, w.id, self.write_p * (0.5 if before else 1.0))
        if wid == w.id:
            return
        nxt = self.workers[wid]
        nxt.quantum = q
        self.overlap_probe["preempted_before_shared_write" if before else "preempted_after_shared_write"] += 1
        self._handover(w, nxt, site=(frame.f_code.co_name + ("+bw" if before else "+w"), frame.f_lineno))

    def on_line(self, frame):
        w = self.by_thread.get(threading.get_ident())
        if w is None:
            return
        w.op_events += 1
        w.total_events += 1
        if w.op_events > self.step_cap:
            raise HarnessError(f"step cap {self.step_cap} exceeded in op {w.opctx and w.opctx.get('id')}")
        if w.cancel_at is not None and w.op_events == w.cancel_at:
            w.cancel_at = None
            ctx = w.opctx
            if ctx is not None:
                ctx["faults_fired"].append(["cancel", w.op_events, frame.f_code.co_name, frame.f_lineno])
            self.log.append(("fault", "cancel", w.id, ctx and ctx.get("id"), frame.f_code.co_name, frame.f_lineno))
            raise SimCancelled(f"cancelled at line event {w.op_events}")
        w.quantum -= 1
        if w.quantum <= 0:
            self._switch(w, site=(frame.f_code.co_name, frame.f_lineno))

    # ------------------------------------------------------------------ switching
    def _runnable(self, exclude=None):
        return [x.id for x in self.workers.values() if x.state == "runnable" and x is not exclude]

    def _fatal(self, msg):
        self.fatal = msg
        self.log.append(("fatal", msg))
        self.phase_done.set()
        raise HarnessError(msg)

    def _switch(self, w: Worker, site=None, must_leave=False):
        """Hand the baton to the decided worker (possibly ``w`` itself)."""
        cands = self._runnable(exclude=w if must_leave else None)
        if not cands:
            if must_leave:
                blocked = [(x.id, str(x.blocked_on)) for x in self.workers.values() if x.state == "blocked"]
                self._fatal(f"SIM-DEADLOCK no runnable worker; blocked={blocked}")
            w.quantum = INF_QUANTUM
            return
        if len(self.workers) == 1:
            w.quantum = INF_QUANTUM
            return
        wid, q = self.decisions.decide(cands)
        nxt = self.workers[wid]
        nxt.quantum = q
        if nxt is w:
            return
        self._handover(w, nxt, site)

    def _handover(self, w: Worker, nxt: Worker, site=None):
        self.switches += 1
        if site is not None:
            key = f"{site[0]}:{site[1]}"
            self.preempt_sites[key] = self.preempt_sites.get(key, 0) + 1
            if self.jit_depth_by_worker.get(w.id, 0) > 0:
                self.overlap_probe["preempted_in_jit"] += 1
        inside = sum(1 for x in self.workers.values() if x.opctx is not None and x.state != "done")
        if inside >= 2:
            self.overlap_probe["two_workers_inside_lcm"] += 1
        self.log.append(("switch", w.id, nxt.id, site[0] if site else None, site[1] if site else None, w.op_events))
        nxt.sem.release()
        w.sem.acquire()
        if self.fatal:
            raise HarnessError(self.fatal)

    def yield_point(self, w: Worker, why: str):  # noqa: ARG002
        self._switch(w, site=None)

    def stall(self, w: Worker, times: int):
        """Slow sink: give the baton away ``times`` times if anybody else can run."""
        for _ in range(times):
            if not self._runnable(exclude=w):
                return
            # force leaving: choose among the others
            self._switch(w, site=("log_stall", 0), must_leave=True)

    # ------------------------------------------------------------------ blocking primitives
    def mutex_acquire(self, m):
        w = self.current()
        if w is None:
            return
        while m.owner is not None and m.owner is not w:
            self.overlap_probe["mutex_contention"] += 1
            self.log.append(("block", w.id, "mutex", m.name))
            w.state = "blocked"
            w.blocked_on = ("mutex", m.name)
            m.waiters += 1
            self._waiters.setdefault(id(m), []).append(w)
            self._switch(w, must_leave=True)
            m.waiters -= 1
        m.owner = w
        m.depth += 1
        self.jit_depth_by_worker[w.id] = self.jit_depth_by_worker.get(w.id, 0) + 1

    def mutex_release(self, m):
        w = self.current()
        if w is None:
            return
        if m.owner is not w:
            return
        self.jit_depth_by_worker[w.id] = self.jit_depth_by_worker.get(w.id, 1) - 1
        m.depth -= 1
        if m.depth == 0:
            m.owner = None
            for x in self._waiters.pop(id(m), []):
                if x.state == "blocked":
                    x.state = "runnable"
                    x.blocked_on = None

    _waiters: dict = {}

    def wait_for_op(self, w: Worker, opid):
        while opid not in self.done_ops:
            self.log.append(("block", w.id, "op", opid))
            w.state = "blocked"
            w.blocked_on = ("op", opid)
            self._switch(w, must_leave=True)

    def op_done(self, opid):
        self.done_ops.add(opid)
        for x in self.workers.values():
            if x.state == "blocked" and x.blocked_on == ("op", opid):
                x.state = "runnable"
                x.blocked_on = None

    # ------------------------------------------------------------------ phases
    def run_phase(self, worker_ops: dict[int, list], execute_op):
        """Run one phase to completion.  ``execute_op(worker, op)`` runs on worker threads."""
        self.workers = {}
        self.by_thread = {}
        self._waiters = {}
        self.phase_done.clear()
        self.jit_depth_by_worker = {}

        def body(w: Worker, ops):
            self.by_thread[threading.get_ident()] = w
            w.sem.acquire()
            try:
                if self.fatal:
                    return
                for op in ops:
                    sys.settrace(self._global_trace)
                    self._switch(w, site=None)  # operation boundary
                    execute_op(w, op)
                sys.settrace(None)
            except HarnessError as e:
                w.error = repr(e)
                self.fatal = self.fatal or repr(e)
            except BaseException as e:  # noqa: BLE001
                w.error = repr(e)
                self.fatal = self.fatal or f"worker {w.id} died: {e!r}"
            finally:
                sys.settrace(None)
                self._finish(w)

        for wid, ops in sorted(worker_ops.items()):
            w = Worker(wid)
            w.state = "runnable"
            self.workers[wid] = w
            t = threading.Thread(target=body, args=(w, ops), name=f"dsim-worker-{wid}", daemon=True)
            w.thread = t
            t.start()
        if not self.workers:
            return
        # give the baton to the first decided worker
        ids = self._runnable()
        if len(ids) == 1:
            first, q = ids[0], INF_QUANTUM
        else:
            first, q = self.decisions.decide(ids)
        self.workers[first].quantum = q
        self.workers[first].sem.release()
        self.phase_done.wait()
        if self.fatal:
            # release everybody so threads can exit
            for w in self.workers.values():
                w.sem.release()
            raise HarnessError(self.fatal)
        for w in self.workers.values():
            w.thread.join(timeout=10)

    def _finish(self, w: Worker):
        w.state = "done"
        w.opctx = None
        if self.fatal:
            self.phase_done.set()
            return
        cands = self._runnable()
        if cands:
            alive = [x for x in self.workers.values() if x.state != "done"]
            if len(alive) == 1:
                wid, q = cands[0], INF_QUANTUM
            else:
                wid, q = self.decisions.decide(cands)
            nxt = self.workers[wid]
            nxt.quantum = q
            self.log.append(("switch", w.id, nxt.id, "finish", 0, w.op_events))
            nxt.sem.release()
            return
        blocked = [(x.id, str(x.blocked_on)) for x in self.workers.values() if x.state == "blocked"]
        if blocked:
            self.fatal = f"SIM-DEADLOCK at worker exit; blocked={blocked}"
            self.log.append(("fatal", self.fatal))
        self.phase_done.set()
