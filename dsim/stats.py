"""Statistical oracle for C04 over the recorded panel (DESIGN 4.2).

Principle: the draw of variable v for agent i in period t is, *conditionally on anything
determined before or independently of that draw*, distributed as the transition row selected
by the agent's own period-t variables.  So for every partition of the agents by

    (row, F)   with  F in { nothing, agent index mod m, the agent's own previous draw,
                            the same-period draw of another stochastic variable,
                            the same-period draw of the neighbour k positions earlier }

the label counts inside each group are exactly Binomial(group size, row[label]).  Every such
count gets an exact two-sided binomial p-value; the run alarms iff the smallest p-value is
below 1e-9 / (number of tests) (Bonferroni: family-wise error <= 1e-9 per run on a correct
sampler, for every seed), while key reuse across agents / periods / variables, a missing
per-agent split or a wrong row make some group (nearly) constant, i.e. p ~ row[label]**size.
"""

from __future__ import annotations

import numpy as np

from dsim.oracles import _viol, frame_rows, n_periods_of

FAMILY_ALPHA = 1e-9
MIN_GROUP = 30
MIN_PANEL = 1500
MODULI = (2, 3, 4, 5, 7, 8, 16)
LAGS = (1, 2, 3, 4, 8, 16)


def _binom_two_sided(k, n, p):
    from scipy.stats import binom

    lower = binom.cdf(k, n, p)
    upper = binom.sf(k - 1, n, p)
    return np.minimum(1.0, 2.0 * np.minimum(lower, upper))


def _group_tests(rowid, rows, x, feat, n_feat, L):
    """Exact binomial p-values of all (group, label) counts.  Returns (pvalues, infos)."""
    g = rowid * n_feat + feat
    G = len(rows) * n_feat
    counts = np.bincount(g * L + x, minlength=G * L).reshape(G, L)
    m = counts.sum(axis=1)
    p = np.repeat(rows, n_feat, axis=0)
    valid = (m[:, None] >= MIN_GROUP) & (p > 0) & (p < 1)
    if not valid.any():
        return np.array([]), []
    gi, li = np.nonzero(valid)
    pv = _binom_two_sided(counts[gi, li], m[gi], p[gi, li])
    return pv, (gi, li, counts, m, p)


def _autocorr_scan(x, P, L, min_terms_var=100.0):
    """All-lag dependence scan across agents for one (variable, period) draw.

    r_i = 1[x_i = l] - P_i[l] for agents whose own row has 0.1 <= P_i[l] <= 0.9 (0 otherwise; the
    mask is fixed before the draw).  Under independence A(k) = sum_i r_i r_{i+k} has mean 0 and
    variance V(k) = sum_i v_i v_{i+k}, v_i = P_i[l](1 - P_i[l]); |r_i r_j| <= 0.81.  Bernstein:
    P(|A(k)| >= t) <= 2 exp(-t^2 / (2 (V(k) + 0.81 t / 3))).  Returns (smallest bound, number of
    (label, lag) pairs tested, description).  A key stream that repeats with ANY period p makes
    x_i = x_{i+p} for agents with equal rows, i.e. A(p) ~ sum v_i: bound ~ exp(-hundreds)."""
    n = len(x)
    if n < 4000:
        return 1.0, 0, ""
    m = 1 << int(np.ceil(np.log2(2 * n)))
    best = (1.0, "")
    tests = 0
    for lab in range(L):
        p = P[:, lab]
        mask = (p >= 0.1) & (p <= 0.9)
        if mask.sum() < 2000:
            continue
        r = np.where(mask, (x == lab).astype(np.float64) - p, 0.0)
        v = np.where(mask, p * (1.0 - p), 0.0)
        fr = np.fft.rfft(r, m)
        fv = np.fft.rfft(v, m)
        hi = max(2, n - 1000)  # every lag that still leaves a thousand pairs (antithetic halves sit at lag n/2)
        A = np.fft.irfft(fr * np.conj(fr), m)[1:hi]
        V = np.fft.irfft(fv * np.conj(fv), m)[1:hi]
        ok = V >= min_terms_var
        if not ok.any():
            continue
        t = np.abs(A[ok])
        # Freedman's inequality for the martingale sum_i r_i r_{i+k} (ordered by the later agent): its
        # predictable quadratic variation sum_i r_i^2 v_{i+k} has mean V(k) and exceeds 1.25 V(k) only
        # with probability < exp(-n/200) (Hoeffding); the bound is therefore stated with 1.25 V(k)
        logb = np.log(2.0) - t * t / (2.0 * (1.25 * V[ok] + 0.27 * t))
        tests += int(ok.sum())
        j = int(np.argmin(logb))
        b = float(np.exp(max(logb[j], -700.0)))
        if b < best[0]:
            lag = int(np.flatnonzero(ok)[j]) + 1
            best = (b, f"label {lab}: agents i and i+{lag}: sum of residual products {float(A[ok][j]):.1f}, standard deviation under independence {float(np.sqrt(V[ok][j])):.1f}")
    return best[0], tests, best[1]


def oracle_c04_stats(h):
    out = []
    summary = {"panels": 0, "tests": 0, "draws": 0, "min_p_log10": 0.0, "zero_prob_rows_seen": 0, "degenerate_rows_seen": 0}
    seen_digest = set()
    pooled = {}  # (model, variable, row) -> [label counts, draws, ops]   over panels with pairwise different seeds
    pooled_seeds = {}  # model -> seeds already pooled
    disp_session = [0.0, 0, []]  # Pearson statistic, degrees of freedom, ops - over panels with pairwise different seeds
    for r in h.ok("SIMULATE"):
        if "result" not in r:
            continue
        op = r["op"]
        ev = h.ev(op["model_id"])
        if not ev.stochastic:
            continue
        fd = r["result"]
        T = n_periods_of(fd)
        n = len(np.asarray(fd["index"][0])) // max(T, 1)
        if n < MIN_PANEL or T < 2:
            continue
        if r.get("digest") in seen_digest:
            continue
        seen_digest.add(r.get("digest"))
        params = h.params(op["params"])
        summary["panels"] += 1
        pvals = []  # (p, description)
        draws = {}  # (s, t) -> labels
        per = [frame_rows(fd, t)[0] for t in range(T)]
        idx = np.arange(n)
        bad_zero = None
        disp = [0.0, 0]  # Pearson statistic and degrees of freedom accumulated over the rows of the panel
        sd = op.get("seed")
        sd = 12345 if sd is None else int(sd)
        pool_this = sd not in pooled_seeds.setdefault(op["model_id"], set())
        pooled_seeds[op["model_id"]].add(sd)
        for t in range(T - 1):
            env = {k: per[t][k] for k in ev.states + ev.choices if k in per[t]}
            for s in ev.stochastic:
                L = ev.dstate_n[s]
                x = np.asarray(per[t + 1][s]).astype(np.int64)
                if x.min() < 0 or x.max() >= L:
                    continue  # reported by the exact oracle
                P = ev.transition_rows(s, env, params, t)
                rows, rowid = np.unique(P, axis=0, return_inverse=True)
                rowid = np.asarray(rowid).reshape(-1)
                summary["draws"] += n
                summary["zero_prob_rows_seen"] += int(((rows == 0).any(axis=1)).sum())
                summary["degenerate_rows_seen"] += int(((rows == 1).any(axis=1)).sum())
                pz = P[idx, x]
                if (pz <= 0).any() and bad_zero is None:
                    i = int(np.flatnonzero(pz <= 0)[0])
                    bad_zero = f"agent {i} drew {s}={x[i]} in period {t} although its row is {P[i].tolist()}"
                draws[(s, t)] = (x, rowid, rows, L)
                if pool_this:
                    cnt = np.bincount(rowid * L + x, minlength=len(rows) * L).reshape(len(rows), L)
                    for ri in range(len(rows)):
                        e = pooled.setdefault((op["model_id"], s, tuple(float(v) for v in rows[ri])), [np.zeros(L, dtype=np.int64), 0, []])
                        e[0] += cnt[ri]
                        e[1] += int(cnt[ri].sum())
                        if r["id"] not in e[2]:
                            e[2].append(r["id"])
                # under-dispersion: Pearson statistic of every sufficiently large row (too SMALL a total means
                # the counts sit closer to their expectations than independent draws allow: stratified,
                # antithetic or quasi-random "variance reduction" across agents)
                cnt_all = np.bincount(rowid * L + x, minlength=len(rows) * L).reshape(len(rows), L)
                for ri in range(len(rows)):
                    pos = rows[ri] > 0
                    m_r = int(cnt_all[ri].sum())
                    if pos.sum() >= 2 and m_r * rows[ri][pos].min() >= 10.0:
                        e_ = m_r * rows[ri][pos]
                        disp[0] += float((((cnt_all[ri][pos] - e_) ** 2) / e_).sum())
                        disp[1] += int(pos.sum()) - 1
                feats = [("all agents of the cell", np.zeros(n, dtype=np.int64), 1)]
                for mod in MODULI:
                    feats.append((f"agent index mod {mod}", idx % mod, mod))
                for k in LAGS:
                    f = np.full(n, L, dtype=np.int64)  # L = "no neighbour"
                    f[k:] = x[:-k]
                    feats.append((f"draw of the agent {k} positions earlier (same variable, same period)", f, L + 1))
                # the nearest earlier agent whose period-t row (all states and choices) is identical:
                # draws keyed by anything derived from the agent's state instead of its position
                # make "twins" draw the same label
                try:
                    M = np.stack([np.asarray(env[k], dtype=np.float64) for k in sorted(env)], axis=1)
                    _, gid = np.unique(M, axis=0, return_inverse=True)
                    gid = np.asarray(gid).reshape(-1)
                    o = np.argsort(gid, kind="stable")
                    tw = np.full(n, L, dtype=np.int64)
                    same = gid[o][1:] == gid[o][:-1]
                    tw[o[1:][same]] = x[o[:-1][same]]
                    feats.append(("draw of the nearest earlier agent with an identical period-t row (same variable, same period)", tw, L + 1))
                except Exception:  # noqa: BLE001 - a feature that cannot be built asserts nothing
                    pass
                if (s, t - 1) in draws:
                    feats.append(("the agent's own draw of the previous period", draws[(s, t - 1)][0], draws[(s, t - 1)][3]))
                for s2 in ev.stochastic:
                    if s2 != s and (s2, t) in draws:
                        feats.append((f"same-period draw of {s2}", draws[(s2, t)][0], draws[(s2, t)][3]))
                    if s2 != s and (s2, t - 1) in draws:
                        feats.append((f"previous-period draw of {s2}", draws[(s2, t - 1)][0], draws[(s2, t - 1)][3]))
                ab, at, adesc = _autocorr_scan(x, P, L)
                if at:
                    pvals.append((ab, at, f"{s} drawn in period {t}, all-lag scan across agents: {adesc}"))
                for fname, f, nf in feats:
                    pv, info = _group_tests(rowid, rows, x, f, nf, L)
                    if len(pv) == 0:
                        continue
                    j = int(pv.argmin())
                    gi, li, counts, m, p = info
                    g = int(gi[j])
                    desc = (
                        f"{s} drawn in period {t}, conditional on [{fname}] = {g % nf}, row {rows[g // nf].tolist()}: "
                        f"label {int(li[j])} occurred {int(counts[g, li[j]])} times in {int(m[g])} draws, expected {float(m[g] * p[g, li[j]]):.1f}"
                    )
                    pvals.append((float(pv[j]), len(pv), desc))
        if bad_zero:
            out.append(_viol("C04", "zero-probability-label-drawn", r, f"op {r['id']} [{op['sig']}]: {bad_zero}", h.plan))
        if pool_this:
            disp_session[0] += disp[0]
            disp_session[1] += disp[1]
            disp_session[2].append(r["id"])
        if disp[1] >= 40:
            from scipy.stats import chi2

            p_low = float(chi2.cdf(disp[0], disp[1]))
            summary["min_dispersion_ratio"] = min(summary.get("min_dispersion_ratio", 9.9), disp[0] / disp[1])
            if p_low < 1e-15:
                out.append(
                    _viol(
                        "C04", "distribution", r,
                        f"op {r['id']} [{op['sig']}] ({n} agents): label counts are closer to their expectations than independent draws allow: "
                        f"Pearson statistic {disp[0]:.1f} on {disp[1]} degrees of freedom (expected about {disp[1]}), lower-tail p = {p_low:.3g} < 1e-15 "
                        f"(draws are not independent across agents: stratified / antithetic / quasi-random sampling)",
                        h.plan,
                    )
                )
        n_tests = sum(k for _, k, _ in pvals)
        summary["tests"] += n_tests
        if pvals:
            pmin, _, desc = min(pvals, key=lambda z: z[0])
            lg = float(np.log10(max(pmin, 1e-300)))
            summary["min_p_log10"] = min(summary["min_p_log10"], lg)
            if pmin < FAMILY_ALPHA / n_tests:
                out.append(
                    _viol(
                        "C04", "distribution", r,
                        f"op {r['id']} [{op['sig']}] ({n} agents): p = {pmin:.3g} (exact binomial test; Bernstein bound for the all-lag scan) < {FAMILY_ALPHA / n_tests:.3g} "
                        f"(family-wise 1e-9 over {n_tests} tests): {desc}",
                        h.plan,
                    )
                )
    if disp_session[1] >= 40:
        from scipy.stats import chi2

        p_low = float(chi2.cdf(disp_session[0], disp_session[1]))
        summary["session_dispersion_ratio"] = round(disp_session[0] / disp_session[1], 3)
        if p_low < 1e-15:
            out.append(
                _viol(
                    "C04", "distribution", h.by_id[disp_session[2][0]],
                    f"pooled over ops {disp_session[2]}: label counts are closer to their expectations than independent draws allow: Pearson statistic "
                    f"{disp_session[0]:.1f} on {disp_session[1]} degrees of freedom, lower-tail p = {p_low:.3g} < 1e-15 (stratified / antithetic / quasi-random sampling across agents)",
                    h.plan,
                )
            )
    # pooled over the panels of the run that were simulated with pairwise different seeds (independent
    # draws): label counts per (variable, row) are Binomial(total draws, row[label]) - several times
    # the power of a single panel against a small systematic bias
    tests = []
    for (mid, sname, row), (cnt, m, ops_) in pooled.items():
        if m < 5 * MIN_GROUP or len(ops_) < 2:
            continue
        for lab, pr in enumerate(row):
            if 0.0 < pr < 1.0:
                tests.append((float(_binom_two_sided(int(cnt[lab]), int(m), pr)), mid, sname, row, lab, int(cnt[lab]), int(m), ops_))
    # a sampler that systematically favours one label POSITION (first, last, ...) in every row: sum over
    # the rows of (count - expectation) for that position; Bernstein bound for the sum of independent,
    # centred indicators (|x| <= 1, variance sum V):  P(|S| >= t) <= 2 exp(-t^2 / (2 (V + t / 3)))
    by_pos = {}
    for (mid, sname, row), (cnt, m, ops_) in pooled.items():
        if len(ops_) < 2:
            continue
        for lab, pr in enumerate(row):
            if 0.0 < pr < 1.0:
                e = by_pos.setdefault((mid, sname, lab), [0.0, 0.0, 0, set()])
                e[0] += float(cnt[lab]) - m * pr
                e[1] += m * pr * (1.0 - pr)
                e[2] += int(m)
                e[3].update(ops_)
    for (mid, sname, lab), (S, V, m, ops_) in by_pos.items():
        if V < 200.0:
            continue
        t_ = abs(S)
        bound = float(min(1.0, 2.0 * np.exp(-t_ * t_ / (2.0 * (V + t_ / 3.0)))))
        tests.append((bound, mid, sname, ("all rows with 0 < p < 1 at this label position", round(V, 1)), lab, int(round(S)), m, sorted(ops_)))
    summary["pooled_tests"] = len(tests)
    summary["pooled_draws"] = int(sum(v[1] for v in pooled.values()))
    if tests:
        pmin, mid, sname, row, lab, c, m, ops_ = min(tests, key=lambda z: z[0])
        if pmin < FAMILY_ALPHA / len(tests):
            rec = h.by_id[ops_[0]]
            out.append(
                _viol(
                    "C04", "distribution", rec,
                    (
                        f"pooled over ops {ops_} (pairwise different seeds): {sname} with row {list(row)}: label {lab} occurred {c} times in {m} draws, "
                        f"expected {m * row[lab]:.1f}; exact binomial p = {pmin:.3g}"
                        if isinstance(row[0], float)
                        else f"pooled over ops {ops_} (pairwise different seeds): {sname}, label position {lab}, {row[0]}: observed minus expected count {c:+d} over {m} draws "
                        f"(variance under the rows of params {row[1]}); Bernstein bound {pmin:.3g}"
                    )
                    + f" < {FAMILY_ALPHA / len(tests):.3g} (family-wise 1e-9 over {len(tests)} pooled tests)",
                    h.plan,
                )
            )
    return out, summary
