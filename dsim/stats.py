"""Statistical oracle for C04 over the recorded panel (DESIGN 4.2).

Principle: the draw of variable v for agent i in period t is, *conditionally on anything
determined before or independently of that draw*, distributed as the transition row selected
by the agent's own period-t variables.  So for every partition of the agents by

    (row, F)   with  F in { nothing, agent index mod m, the agent's own previous draw,
                            the same-period draw of another stochastic variable,
                            the same-period draw of the neighbour k positions earlier }

the label counts inside each group are exactly Binomial(group size, row[label]).  Every such
count gets an exact two-sided binomial p-value; the run alarms iff the smallest p-value is
below 1e-9 / (number of tests) (Bonferroni: family-wise error <= 1e-9 per run on a correct
sampler, for every seed), while key reuse across agents / periods / variables, a missing
per-agent split or a wrong row make some group (nearly) constant, i.e. p ~ row[label]**size.
"""

from __future__ import annotations

import numpy as np

from dsim.oracles import _viol, frame_rows, n_periods_of

FAMILY_ALPHA = 1e-9
MIN_GROUP = 30
MIN_PANEL = 1500
MODULI = (2, 3, 4, 5, 7, 8, 16)
LAGS = (1, 2, 3, 4, 8, 16)


def _binom_two_sided(k, n, p):
    from scipy.stats import binom

    lower = binom.cdf(k, n, p)
    upper = binom.sf(k - 1, n, p)
    return np.minimum(1.0, 2.0 * np.minimum(lower, upper))


def _group_tests(rowid, rows, x, feat, n_feat, L):
    """Exact binomial p-values of all (group, label) counts.  Returns (pvalues, infos)."""
    g = rowid * n_feat + feat
    G = len(rows) * n_feat
    counts = np.bincount(g * L + x, minlength=G * L).reshape(G, L)
    m = counts.sum(axis=1)
    p = np.repeat(rows, n_feat, axis=0)
    valid = (m[:, None] >= MIN_GROUP) & (p > 0) & (p < 1)
    if not valid.any():
        return np.array([]), []
    gi, li = np.nonzero(valid)
    pv = _binom_two_sided(counts[gi, li], m[gi], p[gi, li])
    return pv, (gi, li, counts, m, p)


def oracle_c04_stats(h):
    out = []
    summary = {"panels": 0, "tests": 0, "draws": 0, "min_p_log10": 0.0, "zero_prob_rows_seen": 0, "degenerate_rows_seen": 0}
    seen_digest = set()
    for r in h.ok("SIMULATE"):
        if "result" not in r:
            continue
        op = r["op"]
        ev = h.ev(op["model_id"])
        if not ev.stochastic:
            continue
        fd = r["result"]
        T = n_periods_of(fd)
        n = len(np.asarray(fd["index"][0])) // max(T, 1)
        if n < MIN_PANEL or T < 2:
            continue
        if r.get("digest") in seen_digest:
            continue
        seen_digest.add(r.get("digest"))
        params = h.params(op["params"])
        summary["panels"] += 1
        pvals = []  # (p, description)
        draws = {}  # (s, t) -> labels
        per = [frame_rows(fd, t)[0] for t in range(T)]
        idx = np.arange(n)
        bad_zero = None
        for t in range(T - 1):
            env = {k: per[t][k] for k in ev.states + ev.choices if k in per[t]}
            for s in ev.stochastic:
                L = ev.dstate_n[s]
                x = np.asarray(per[t + 1][s]).astype(np.int64)
                if x.min() < 0 or x.max() >= L:
                    continue  # reported by the exact oracle
                P = ev.transition_rows(s, env, params, t)
                rows, rowid = np.unique(P, axis=0, return_inverse=True)
                rowid = np.asarray(rowid).reshape(-1)
                summary["draws"] += n
                summary["zero_prob_rows_seen"] += int(((rows == 0).any(axis=1)).sum())
                summary["degenerate_rows_seen"] += int(((rows == 1).any(axis=1)).sum())
                pz = P[idx, x]
                if (pz <= 0).any() and bad_zero is None:
                    i = int(np.flatnonzero(pz <= 0)[0])
                    bad_zero = f"agent {i} drew {s}={x[i]} in period {t} although its row is {P[i].tolist()}"
                draws[(s, t)] = (x, rowid, rows, L)
                feats = [("all agents of the cell", np.zeros(n, dtype=np.int64), 1)]
                for mod in MODULI:
                    feats.append((f"agent index mod {mod}", idx % mod, mod))
                for k in LAGS:
                    f = np.full(n, L, dtype=np.int64)  # L = "no neighbour"
                    f[k:] = x[:-k]
                    feats.append((f"draw of the agent {k} positions earlier (same variable, same period)", f, L + 1))
                # the nearest earlier agent whose period-t row (all states and choices) is identical:
                # draws keyed by anything derived from the agent's state instead of its position
                # make "twins" draw the same label
                try:
                    M = np.stack([np.asarray(env[k], dtype=np.float64) for k in sorted(env)], axis=1)
                    _, gid = np.unique(M, axis=0, return_inverse=True)
                    gid = np.asarray(gid).reshape(-1)
                    o = np.argsort(gid, kind="stable")
                    tw = np.full(n, L, dtype=np.int64)
                    same = gid[o][1:] == gid[o][:-1]
                    tw[o[1:][same]] = x[o[:-1][same]]
                    feats.append(("draw of the nearest earlier agent with an identical period-t row (same variable, same period)", tw, L + 1))
                except Exception:  # noqa: BLE001 - a feature that cannot be built asserts nothing
                    pass
                if (s, t - 1) in draws:
                    feats.append(("the agent's own draw of the previous period", draws[(s, t - 1)][0], draws[(s, t - 1)][3]))
                for s2 in ev.stochastic:
                    if s2 != s and (s2, t) in draws:
                        feats.append((f"same-period draw of {s2}", draws[(s2, t)][0], draws[(s2, t)][3]))
                    if s2 != s and (s2, t - 1) in draws:
                        feats.append((f"previous-period draw of {s2}", draws[(s2, t - 1)][0], draws[(s2, t - 1)][3]))
                for fname, f, nf in feats:
                    pv, info = _group_tests(rowid, rows, x, f, nf, L)
                    if len(pv) == 0:
                        continue
                    j = int(pv.argmin())
                    gi, li, counts, m, p = info
                    g = int(gi[j])
                    desc = (
                        f"{s} drawn in period {t}, conditional on [{fname}] = {g % nf}, row {rows[g // nf].tolist()}: "
                        f"label {int(li[j])} occurred {int(counts[g, li[j]])} times in {int(m[g])} draws, expected {float(m[g] * p[g, li[j]]):.1f}"
                    )
                    pvals.append((float(pv[j]), len(pv), desc))
        if bad_zero:
            out.append(_viol("C04", "zero-probability-label-drawn", r, f"op {r['id']} [{op['sig']}]: {bad_zero}", h.plan))
        n_tests = sum(k for _, k, _ in pvals)
        summary["tests"] += n_tests
        if pvals:
            pmin, _, desc = min(pvals, key=lambda z: z[0])
            lg = float(np.log10(max(pmin, 1e-300)))
            summary["min_p_log10"] = min(summary["min_p_log10"], lg)
            if pmin < FAMILY_ALPHA / n_tests:
                out.append(
                    _viol(
                        "C04", "distribution", r,
                        f"op {r['id']} [{op['sig']}] ({n} agents): exact binomial p = {pmin:.3g} < {FAMILY_ALPHA / n_tests:.3g} "
                        f"(family-wise 1e-9 over {n_tests} tests): {desc}",
                        h.plan,
                    )
                )
    return out, summary
