"""Seeded generation of run plans (DESIGN 3.2): one run seed -> one fully explicit plan.

A plan is plain data (JSON-serialisable): models, parameter sets, batches, and per
incarnation the phases with their operations, workers, faults and the scheduler seed.
Executing a plan is a pure function of the plan and the code under test.
"""

from __future__ import annotations

import copy
import random

from dsim import catalogue
from dsim.scheduler import INF_QUANTUM

QUANTA = [1, 5, 50, 500, INF_QUANTUM]
QUANTA_MIXES = {
    "fine": [4, 4, 2, 1, 0],
    "mixed": [1, 2, 3, 3, 1],
    "coarse": [0, 1, 2, 4, 3],
    "atomic": [0, 0, 0, 1, 6],
}
DEFAULT_SEED = 12345

PROFILES = {
    # everything: shared handles, workers, faults, cache loss, restarts, retyping, aliasing
    "C09": {
        "n_models": [1, 2],
        "want": [{}, {}, {"filter": True}, {"cstate": True, "cstate2": True}],
        "workers": [1, 2, 2, 3, 3],
        "fault_free_p": 0.4,
        "restart_p": 0.5,
        "batch_size": (3, 9),
        "n_sigs": (3, 6),
        "chaos_ops": (6, 12),
        "spy": ["off", "off", "off", "spy"],
        "pool": (10, 16),
        "on_grid_bias": 0.4,
        "fresh_ref_p": 0.3,
    },
    "C03": {
        "n_models": [1],
        "want": [{}, {"stochastic": True, "periods": (3, 5)}, {"stochastic": True, "two_stochastic": True, "periods": (2, 5)}, {"cstate": True}, {"filter": True}, {"cstate": True, "cstate2": True}],
        "workers": [1, 1, 2],
        "fault_free_p": 0.65,
        "fault_bias": "simulate",
        "restart_p": 0.1,
        "batch_size": (8, 40),
        "n_sigs": (2, 4),
        "chaos_ops": (2, 5),
        "spy": ["scripted", "scripted", "spy", "off"],
        "large_batch_p": 0.2,
        "shock_sparsity": [0.0, 0.5, 0.8],
        "pool": (30, 60),
        "on_grid_bias": 0.3,
        "fresh_ref_p": 0.1,
        "sim_only": True,
    },
    "C04": {
        "n_models": [1],
        "want": [
            {"stochastic": True, "periods": (2, 5)},
            {"stochastic": True, "two_stochastic": True, "periods": (2, 5)},
            {"stochastic": True, "cstate": False, "periods": (3, 5)},
        ],
        "workers": [1, 1, 2],
        "fault_free_p": 0.65,
        "fault_bias": "simulate",
        "restart_p": 0.15,
        "batch_size": (20000, 20000),
        "n_sigs": (2, 3),
        "chaos_ops": (2, 4),
        "spy": ["spy"],
        "f32_shocks_p": 0.35,
        "pool": (24, 48),
        "on_grid_bias": 0.3,
        "fresh_ref_p": 0.0,
        "sim_only": True,
        "seeds_per_batch": 2,
        "big": True,
    },
    "C06": {
        "n_models": [1],
        "want": [{"cstate": True, "node": True}, {"cstate": False}, {"cstate": True}, {"filter": True}, {"filter": True, "periods": (3, 4)}, {"cstate": True, "cstate2": True, "node": True}],
        "workers": [1, 2],
        "fault_free_p": 0.8,
        "restart_p": 0.5,
        "batch_size": (6, 24),
        "n_sigs": (2, 4),
        "chaos_ops": (3, 7),
        "spy": ["off"],
        "pool": (20, 40),
        "on_grid_bias": 0.75,
        "fresh_ref_p": 0.1,
        "sim_only": True,
        "same_v": True,
    },
    "C08": {
        "n_models": [1],
        "want": [{"stochastic": False}, {"stochastic": False}, {"stochastic": False, "filter": True}, {"stochastic": False, "filter": True, "periods": (3, 4)}, {"stochastic": False, "cstate": True, "cstate2": True}, {"stochastic": True}],
        "workers": [1, 2],
        "fault_free_p": 0.85,
        "restart_p": 0.1,
        "batch_size": (2, 14),
        "n_sigs": (4, 7),
        "chaos_ops": (3, 7),
        "spy": ["off"],
        "pool": (8, 14),
        "on_grid_bias": 0.3,
        "fresh_ref_p": 0.0,
        "sim_only": True,
        "same_v": True,
        "membership": True,
    },
}


class _B:
    """Plan builder state."""

    def __init__(self, rng):
        self.rng = rng
        self.next_id = 1
        self.models = {}
        self.metas = {}
        self.params = {}
        self.batches = {}
        self.pools = {}

    def oid(self):
        i = self.next_id
        self.next_id += 1
        return i


def _loop_pattern(rng, k, length):
    """Indices into a list of k call signatures: sweeps over all of them with returns to the base
    point in between (base, neighbours, base, trial, base, ...), then random revisits."""
    out = [0]
    others = list(range(1, k))
    rng.shuffle(others)
    cut = rng.randint(1, len(others)) if others else 0
    out += others[:cut] + [0] + others[cut:] + [0]
    while len(out) < length:
        out.append(rng.randrange(k) if rng.random() < 0.6 else 0)
    return out[: max(length, min(len(out), 2 * k + 2))]


def _sig_solve(mid, pid):
    return f"SOLVE|{mid}|{pid}"


def _sig_sim(mid, pid, content, seed, vp, targets, seed_t="py"):
    s = DEFAULT_SEED if seed is None else seed
    base = f"SIM|{mid}|{pid}|{content}|vp={vp}|t={','.join(targets or [])}"
    # the type of the seed object is part of the call signature: nothing in the property equates
    # seed=-7 with seed=np.int32(-7) (jax derives different keys from them)
    return base + f"|seed={s}" + ("" if seed_t == "py" else f":{seed_t}"), base


def make_run_plan(run_seed: int, profile: str, tier: str = "quick", overrides: dict | None = None) -> dict:
    P = dict(PROFILES[profile])
    if overrides:
        P.update(overrides)
    rng = random.Random(f"dsim:{profile}:{run_seed}")
    b = _B(rng)
    if tier == "thorough":
        # deeper bounds: longer sessions, longer horizons, one more caller thread
        lo_c, hi_c = P["chaos_ops"]
        P["chaos_ops"] = (lo_c, hi_c + max(2, hi_c // 2))
        P["want"] = [dict(w, periods=w.get("periods", (1, 5))) for w in P["want"]]
        if profile == "C09":
            P["workers"] = [*P["workers"], 4]

    # ---------------------------------------------------------------- swarm knobs
    n_models = rng.choice(P["n_models"])
    n_workers = rng.choice(P["workers"])
    fault_free = rng.random() < P["fault_free_p"]
    fault_kinds = [] if fault_free else [k for k in ["log_error", "log_stall", "callback_raise", "cancel"] if rng.random() < 0.6]
    if not fault_free and not fault_kinds:
        fault_kinds = [rng.choice(["log_error", "callback_raise", "cancel"])]
    extras = {k: rng.random() < 0.5 for k in ["retype", "mutate", "clear_caches", "gc", "dup_handles", "transient"]}
    restart = rng.random() < (max(P["restart_p"], 0.75) if n_models == 2 else P["restart_p"])
    spy = rng.choice(P["spy"])
    quanta_mix = rng.choice(list(QUANTA_MIXES))
    # probability of handing the baton to another worker right after a statement that writes to
    # possibly shared memory (dsim/sharedwrites.py)
    write_p = rng.choice(P.get("write_p", [0.0, 0.5, 1.0])) if n_workers > 1 else 0.0
    big = bool(P.get("big"))
    if big and tier == "thorough":
        P["batch_size"] = rng.choice([(20000, 20000), (50000, 50000), (100000, 100000)])
    fresh_ref = rng.random() < P["fresh_ref_p"]
    # the caller builds a new Model object for (most) get_lcm_function calls and drops it afterwards
    fresh_models = rng.random() < P.get("fresh_models_p", 0.3)
    # share of function objects built with debug_mode=True: the first such build raises the level of
    # the process-global "lcm" logger for good; with 0.0 nothing is ever logged in the run
    debug_p = rng.choice(P.get("debug_p", [0.0, 0.25, 0.7, 0.7, 1.0]))
    if debug_p == 0.0 and fault_kinds:
        fault_kinds = [k for k in fault_kinds if not k.startswith("log_")] or ["cancel"]  # nothing is logged
    default_leaf = rng.choice(["float", "float", "np", "np0d", "jax", "int"])

    # ---------------------------------------------------------------- models, params, batches
    for i in range(n_models):
        mid = f"m{i}"
        want = dict(rng.choice(P["want"]))
        if i == 1 and rng.random() < P.get("sibling_p", 0.6):
            recipe = catalogue.sibling_recipe(rng, b.models["m0"], f"r{run_seed}_{mid}")
        else:
            recipe = catalogue.gen_recipe(rng, f"r{run_seed}_{mid}", want)
        _, meta = catalogue.render(recipe)
        b.models[mid] = recipe
        b.metas[mid] = meta
        sparsity = rng.choice(P.get("shock_sparsity", [0.0]))
        for j in range(rng.randint(2, 3)):
            if j == 1:
                # a neighbour of p0: only one or two leaves differ (what an optimiser does between calls)
                b.params[f"{mid}p{j}"] = {"model": mid, "values": catalogue.perturb_params(rng, recipe, meta, b.params[f"{mid}p0"]["values"], sparsity)}
            else:
                b.params[f"{mid}p{j}"] = {"model": mid, "values": catalogue.gen_params(rng, recipe, meta, sparsity)}
        # finite-difference neighbours of p0 (what the gradient of an optimiser evaluates)
        n_fd = rng.choice(P.get("n_fd", [0, 1, 1, 3, 5]))
        # gradient (every neighbour moves another parameter) or line search (all move the same one)
        line = rng.choice(catalogue.fd_leaves(meta)) if (n_fd >= 2 and rng.random() < 0.5) else None
        steps = [1e-7, -1e-7, 1e-6, 1e-5, -1e-5, 2e-6, -3e-6]
        rng.shuffle(steps)
        for q in range(n_fd):
            fd_pid = f"{mid}p{j + 1 + q}"
            vals = catalogue.fd_neighbour_params(rng, recipe, meta, b.params[f"{mid}p0"]["values"], leaf=line, step=steps[q] if line else None)
            b.params[fd_pid] = {"model": mid, "values": vals, "fd_of": f"{mid}p0"}
        if meta["stochastic"] and rng.random() < P.get("f32_shocks_p", 0.15):
            # transition arrays supplied in single precision (values exactly representable, so that
            # the harness's own row lookup is exact)
            import numpy as _np

            def _f32(x):
                return [_f32(y) for y in x] if isinstance(x, list) else float(_np.float32(x))

            last = sorted(p for p in b.params if b.params[p]["model"] == mid and not b.params[p].get("fd_of"))[-1]
            b.params[last]["values"]["shocks"] = {k: _f32(v) for k, v in b.params[last]["values"]["shocks"].items()}
            b.params[last]["shocks_dtype"] = "float32"
        pool = [catalogue.gen_agent(rng, recipe, P["on_grid_bias"]) for _ in range(rng.randint(*P["pool"]))]
        b.pools[mid] = pool
        nb = rng.randint(2, 3) if not P.get("membership") else rng.randint(4, 6)
        for j in range(nb):
            lo, hi = P["batch_size"]
            n = rng.randint(lo, hi)
            if P.get("membership") and j > 0:
                # agents simulated alone or in very small company: the canonical reference for "depends
                # only on its own state", and batches in which nobody else moves
                n = rng.choice([1, 1, 2, 3, n, n])
            if big:
                agents = {"gen_seed": rng.randrange(2**31), "n": n, "on_grid_bias": P["on_grid_bias"]}
            elif P.get("membership") and j > 0:
                # joins, leaves, duplicates, reorderings of the pool
                agents = [copy.deepcopy(rng.choice(pool)) for _ in range(n)]
            else:
                agents = [copy.deepcopy(rng.choice(pool)) for _ in range(n)]
            bid = f"{mid}b{j}"
            a_dtype = "float64"
            cs = recipe["cstate"]
            if cs and not big and rng.random() < P.get("int_batch_p", 0.25):
                # observed data often come as integer columns: integer-valued initial values of the
                # continuous state, supplied with an integer dtype
                import math

                lo_i, hi_i = math.ceil(cs["start"]), math.floor(cs["stop"] * (1.0 if cs["scale"] == "log" else 1.25))
                if hi_i >= lo_i:
                    agents = [dict(ag, a=["v", float(rng.randint(lo_i, hi_i))]) for ag in copy.deepcopy(agents)]
                    a_dtype = rng.choice(["int64", "int32"])
            # (float32 initial states are NOT generated: lcm then computes the first period in single precision
            # - weak type promotion - and results of different compilations differ at 1e-8..1e-7, which the
            # comparison policy of DESIGN 3.6 would report although no property fixes those digits)
            if False and cs and not big and a_dtype == "float64" and rng.random() < P.get("f32_batch_p", 0.0):
                # single-precision data: the array handed over is the float32 rounding of the values (the oracles
                # compare with the array that was actually passed)
                a_dtype = "float32"
            b.batches[bid] = {"model": mid, "agents": agents, "key_order": list(recipe["states_order"]), "content": bid, "int_dtype": "int64", "a_dtype": a_dtype}
            # a variant with another key order / integer dtype: same content, same signature
            ko = list(recipe["states_order"])
            rng.shuffle(ko)
            b.batches[bid + "~v"] = {
                "model": mid, "agents": agents, "key_order": ko, "content": bid, "int_dtype": rng.choice(["int64", "int32"]),
                # (an integer-typed array may come back as float64: same values; a float32 array stays float32,
                # its float64 original would be other values, i.e. another call signature)
                "a_dtype": a_dtype if a_dtype == "float32" else rng.choice([a_dtype, "float64"]),
            }
        if not P.get("membership") and not big and rng.random() < P.get("large_batch_p", 0.0):
            # one long frame (tens of thousands of rows): row (t, i) must still be agent i in period t
            nlarge = rng.choice([rng.randint(5500, 9000), rng.randint(16500, 21000)])
            lb = f"{mid}b{nb}"
            b.batches[lb] = {"model": mid, "agents": {"gen_seed": rng.randrange(2**31), "n": nlarge, "on_grid_bias": P["on_grid_bias"]}, "key_order": list(recipe["states_order"]), "content": lb, "int_dtype": "int64", "a_dtype": "float64"}
            b.batches[lb + "~v"] = dict(b.batches[lb])
        if P.get("membership") and rng.random() < P.get("big_batch_p", 0.3):
            # one large batch and a small one made of its first and last agents
            nbig = rng.randint(4200, 9000) if rng.random() < 0.7 else rng.randint(16500, 21000)
            gen = {"gen_seed": rng.randrange(2**31), "n": nbig, "on_grid_bias": P["on_grid_bias"]}
            full = catalogue.expand_agents(recipe, gen)
            small = copy.deepcopy(full[:8] + full[-14:])
            rng.shuffle(small)
            for bid, agents in ((f"{mid}bB", gen), (f"{mid}bS", small)):
                b.batches[bid] = {"model": mid, "agents": agents, "key_order": list(recipe["states_order"]), "content": bid, "int_dtype": "int64", "a_dtype": "float64"}
                b.batches[bid + "~v"] = dict(b.batches[bid])

    # ---------------------------------------------------------------- call signatures
    sigs = []  # dicts: kind, mid, pid, (bid, seed, vp, targets)
    for mid in b.models:
        pids = [p for p in b.params if b.params[p]["model"] == mid]
        bids = [x for x in b.batches if b.batches[x]["model"] == mid and "~" not in x]
        meta = b.metas[mid]
        n_s = max(1, rng.randint(*P["n_sigs"]) // n_models)
        if not P.get("sim_only"):
            for pid in rng.sample(pids, rng.randint(1, min(2, len(pids)))):
                sigs.append({"kind": "SOLVE", "mid": mid, "pid": pid})
        tgt_pool = [t for t in meta["aux"] + ["utility"] + meta["next_det"] + meta["constraints"]]
        neg = -rng.randint(1, 1000)
        small = rng.randint(0, 1000)
        seeds_pool = [
            (None, "py"), (rng.randint(0, 2**31 - 1), "py"), (small, "py"), (0, "py"), (rng.randint(2**32, 2**40), "py"),
            (neg, "py"), (neg, "i32"), (small, "i64"), (rng.randint(0, 1000), "i32"),
        ]
        if P.get("membership"):
            pid = rng.choice(pids)
            seed, seed_t = rng.choice(seeds_pool)
            for bid in bids:
                sigs.append({"kind": "SIM", "mid": mid, "pid": pid, "bid": bid, "seed": seed, "seed_t": seed_t, "vp": pid, "targets": None})
            continue
        for _ in range(n_s):
            pid = rng.choice(pids)
            vp = pid if (P.get("same_v") or rng.random() < 0.8) else rng.choice(pids)
            targets = None
            if rng.random() < 0.3 and tgt_pool:
                targets = rng.sample(tgt_pool, rng.randint(1, min(2, len(tgt_pool))))
            bid = rng.choice(bids)
            if targets and len(tgt_pool) >= 2 and rng.random() < 0.5:
                # the same call with a larger / smaller set of additional targets
                more = [t for t in tgt_pool if t not in targets]
                comp = (targets + [rng.choice(more)]) if (more and (len(targets) == 1 or rng.random() < 0.5)) else targets[:-1]
                if comp:
                    sigs.append({"kind": "SIM", "mid": mid, "pid": pid, "bid": bid, "seed": None, "seed_t": "py", "vp": vp, "targets": comp})
            if P.get("seeds_per_batch"):
                u = rng.random()
                if u < 0.7:
                    sds = [(x, "py") for x in rng.sample(range(1, 10**6), P["seeds_per_batch"])]
                elif u < 0.85:
                    sds = [(0, "py"), (rng.randint(2**32, 2**40), "py")][: P["seeds_per_batch"]]
                else:
                    sds = [(neg, "py"), (neg, "i32")][: P["seeds_per_batch"]]
                for sd, sd_t in sds:
                    sigs.append({"kind": "SIM", "mid": mid, "pid": pid, "bid": bid, "seed": sd, "seed_t": sd_t, "vp": vp, "targets": targets})
            else:
                sd, sd_t = rng.choice(seeds_pool)
                sigs.append({"kind": "SIM", "mid": mid, "pid": pid, "bid": bid, "seed": sd, "seed_t": sd_t, "vp": vp, "targets": targets})
    # estimation loops: the same call with p0 and with its neighbour p1
    est_loops = []
    if rng.random() < P.get("est_loop_p", 0.5):
        fd_of = {p: v["fd_of"] for p, v in b.params.items() if v.get("fd_of")}
        partners = {}
        for p in b.params:
            if p.endswith("p0"):
                partners[p] = [p[:-1] + "1"] + [q for q, o in fd_of.items() if o == p] * 2
            elif p.endswith("p1"):
                partners[p] = [p[:-1] + "0"]
            elif p in fd_of:
                partners[p] = [fd_of[p]]
        base = [x for x in sigs if x["pid"] in partners]
        if base:
            s0 = dict(rng.choice(base))
            other = rng.choice(partners[s0["pid"]])
            s1 = dict(s0, pid=other)
            if s0["kind"] == "SIM":
                if s0["vp"] != s0["pid"]:
                    s0["vp"] = s0["pid"]
                s1["vp"] = other
            slist = [s0, s1]
            fds = [q for q, o in fd_of.items() if o in (s0["pid"], s1["pid"]) and q not in (s0["pid"], s1["pid"])]
            if fds and rng.random() < 0.7:
                # gradient-style loop: base point, its finite-difference neighbours, a trial point
                for q in fds[:5]:
                    x = dict(s0, pid=q)
                    if x["kind"] == "SIM":
                        x["vp"] = q
                    slist.append(x)
            for x in slist:
                if x not in sigs:
                    sigs.append(x)
            est_loops.append(slist)
    # every SIM needs the solution for its vp: make sure those SOLVE signatures exist
    have = {(s["mid"], s["pid"]) for s in sigs if s["kind"] == "SOLVE"}
    for s in list(sigs):
        if s["kind"] == "SIM" and (s["mid"], s["vp"]) not in have:
            have.add((s["mid"], s["vp"]))
            sigs.append({"kind": "SOLVE", "mid": s["mid"], "pid": s["vp"]})
    # dedupe
    seen, uniq = set(), []
    for s in sigs:
        k = repr(sorted(s.items(), key=lambda kv: kv[0]))
        if k not in seen:
            seen.add(k)
            uniq.append(s)
    sigs = uniq

    def solve_op(hid, s, worker=0, needs=(), leaf="float"):
        return {
            "id": b.oid(), "kind": "SOLVE", "worker": worker, "handle": hid, "params": s["pid"], "leaf": leaf,
            "model_id": s["mid"], "sig": _sig_solve(s["mid"], s["pid"]), "needs": list(needs),
        }

    def sim_op(hid, s, worker=0, needs=(), vsrc=None, vsrc_kind=None, leaf="float", variant=False, vform="asis", bform="np"):
        sig, sig_ns = _sig_sim(s["mid"], s["pid"], s["bid"], s["seed"], s["vp"], s["targets"], s.get("seed_t", "py"))
        return {
            "id": b.oid(), "kind": "SIMULATE", "worker": worker, "handle": hid, "params": s["pid"], "leaf": leaf,
            "batch": s["bid"] + ("~v" if variant else ""), "bform": bform, "seed": s["seed"], "seed_t": s.get("seed_t", "py"), "targets": s["targets"],
            "vsrc": vsrc, "vsrc_kind": vsrc_kind, "vform": vform, "vparams": s["vp"], "model_id": s["mid"],
            "sig": sig, "sig_noseed": sig_ns, "needs": list(needs),
        }

    def build_op(hid, mid, target, jit, debug, worker=0):
        o = {"id": b.oid(), "kind": "BUILD", "worker": worker, "handle": hid, "model": mid, "model_id": mid, "target": target, "jit": jit, "debug": debug}
        if fresh_models and rng.random() < 0.7:
            o["fresh_model"] = True
        if rng.random() < P.get("fill_template_p", 0.4):
            pids_m = sorted(p for p in b.params if b.params[p]["model"] == mid)
            o["fill"] = rng.choice(pids_m)
            o["fill_leaf"] = rng.choice(["float", "float", "np", "jax"])
        return o

    # ---------------------------------------------------------------- reference phase
    ref_ops = []
    ref_solve = {}  # (mid, pid) -> op id
    ref_handles = {}

    def ref_handle(mid, target, fresh_tag=None):
        key = (mid, target, fresh_tag)
        if key not in ref_handles:
            hid = f"ref_{mid}_{target}" + (f"_{fresh_tag}" if fresh_tag is not None else "")
            op = build_op(hid, mid, target, jit=rng.random() < 0.7, debug=rng.random() < debug_p)
            ref_ops.append(op)
            ref_handles[key] = hid
        return ref_handles[key]

    order = list(range(len(sigs)))
    rng.shuffle(order)
    # solves first (their arrays feed the simulate references)
    # model-major: the reference of the first model is computed before anything of the second exists
    order.sort(key=lambda i: (0 if sigs[i]["kind"] == "SOLVE" else 1, sigs[i]["mid"]))
    for n_i, i in enumerate(order):
        s = sigs[i]
        tag = n_i if fresh_ref else None
        if s["kind"] == "SOLVE":
            op = solve_op(ref_handle(s["mid"], "solve", tag), s)
            ref_solve[(s["mid"], s["pid"])] = op["id"]
            ref_ops.append(op)
        else:
            if s["vp"] == s["pid"] and rng.random() < 0.5:
                ref_ops.append(sim_op(ref_handle(s["mid"], "solve_and_simulate", tag), s))
            else:
                src = ref_solve[(s["mid"], s["vp"])]
                ref_ops.append(sim_op(ref_handle(s["mid"], "simulate", tag), s, vsrc=["op", src], vsrc_kind="op", needs=[src]))

    # ---------------------------------------------------------------- chaos phase(s)
    def gen_chaos(n_ops, inc_index, store_keys):
        ops = []
        handles = []
        loads = {}  # (mid, pid) -> LOAD op id
        mids = list(b.models)
        if inc_index == 1:
            mids.reverse()  # after a restart the models are built in the opposite order
        # every model gets what its signatures need (a solve and a simulate-capable function object);
        # further objects (other targets, duplicates) fill up to six
        cfgs, more = [], []
        for mid in mids:
            need_solve = any(s["kind"] == "SOLVE" and s["mid"] == mid for s in sigs)
            if need_solve:
                cfgs.append((mid, "solve"))
            cfgs.append((mid, rng.choice(["solve_and_simulate", "simulate"])))
            if rng.random() < 0.6:
                more.append((mid, rng.choice(["solve", "simulate", "solve_and_simulate"])))
            if extras["dup_handles"]:
                more.append(rng.choice(cfgs))
        rng.shuffle(more)
        cfgs += more[: max(0, 6 - len(cfgs))]
        first_build = {}
        for k, (mid, target) in enumerate(cfgs):
            hid = f"h{inc_index}_{k}"
            w = rng.randrange(n_workers)
            op = build_op(hid, mid, target, jit=rng.random() < 0.6, debug=rng.random() < debug_p, worker=w)
            if inc_index == 1 and len(mids) == 2 and mid == mids[1] and mids[0] in first_build:
                op["needs"] = [first_build[mids[0]]]
            first_build.setdefault(mid, op["id"])
            ops.append(op)
            handles.append({"hid": hid, "mid": mid, "target": target, "build": op["id"], "jit": op["jit"], "fill": op.get("fill"), "fill_leaf": op.get("fill_leaf")})
        # value arrays from the durable store (after a restart)
        for (mid, pid), key in store_keys.items():
            op = {"id": b.oid(), "kind": "LOAD", "worker": rng.randrange(n_workers), "key": key, "as": rng.choice(["np", "jax"]), "model_id": mid}
            ops.append(op)
            loads[(mid, pid)] = op["id"]
        chaos_solve = {}
        priv = {}  # (worker, kind) -> current content

        def make_call(s, w, leaf, hnd=None, prefer_inline_solve=False, force_v=False):
            """Append what is needed and return the SOLVE/SIMULATE op for signature ``s`` (or None)."""
            if s["kind"] == "SOLVE":
                hs = [h for h in handles if h["mid"] == s["mid"] and h["target"] == "solve"]
                if hnd is None:
                    if not hs:
                        return None
                    hnd = rng.choice(hs)
                op = solve_op(hnd["hid"], s, worker=w, needs=[hnd["build"]], leaf=leaf)
                chaos_solve.setdefault((s["mid"], s["pid"]), op["id"])
                return op
            hs = [h for h in handles if h["mid"] == s["mid"] and h["target"] in ("simulate", "solve_and_simulate")]
            if hnd is None:
                if not hs:
                    return None
                hnd = rng.choice(hs)
            vsrc, vkind, needs = None, None, [hnd["build"]]
            must_v = force_v or hnd["target"] == "simulate" or s["vp"] != s["pid"]
            if must_v or (not prefer_inline_solve and rng.random() < 0.4):
                cands = []
                if inc_index == 0 and (s["mid"], s["vp"]) in ref_solve:
                    cands.append(("op", ref_solve[(s["mid"], s["vp"])], "op"))
                if (s["mid"], s["vp"]) in chaos_solve:
                    cands.append(("op", chaos_solve[(s["mid"], s["vp"])], "op"))
                if (s["mid"], s["vp"]) in loads:
                    cands.append(("op", loads[(s["mid"], s["vp"])], "store"))
                if not cands:
                    # produce it here first
                    sh = [h for h in handles if h["mid"] == s["mid"] and h["target"] == "solve"]
                    if not sh:
                        hid = f"h{inc_index}_x{len(handles)}"
                        bo = build_op(hid, s["mid"], "solve", jit=rng.random() < 0.6, debug=rng.random() < debug_p, worker=w)
                        ops.append(bo)
                        handles.append({"hid": hid, "mid": s["mid"], "target": "solve", "build": bo["id"]})
                        sh = [handles[-1]]
                    ph = rng.choice(sh)
                    so = solve_op(ph["hid"], {"mid": s["mid"], "pid": s["vp"]}, worker=w, needs=[ph["build"]])
                    ops.append(so)
                    chaos_solve[(s["mid"], s["vp"])] = so["id"]
                    cands.append(("op", so["id"], "op"))
                c = rng.choice(cands)
                vsrc, vkind = [c[0], c[1]], c[2]
                needs.append(c[1])
            return sim_op(
                hnd["hid"], s, worker=w, needs=needs, vsrc=vsrc, vsrc_kind=vkind, leaf=leaf,
                variant=rng.random() < 0.4, vform=rng.choice(["asis", "asis", "np", "jax", "npF"]),
                bform=rng.choice(["np", "np", "jax", "np_strided", "np_revview", "np_fcol", "np_ccol", "np_ccol_rev", "np_ro"]),
            )

        # "estimation loop": one worker calls one long-lived function again and again with ONE
        # params object of its own that it overwrites in place between the calls
        loops = []
        for slist in est_loops:
            s0 = slist[0]
            if rng.random() < 0.75:
                w = rng.randrange(n_workers)
                if s0["kind"] == "SOLVE":
                    hs = [h for h in handles if h["mid"] == s0["mid"] and h["target"] == "solve"]
                else:
                    hs = [h for h in handles if h["mid"] == s0["mid"] and h["target"] in ("simulate", "solve_and_simulate")]
                    ss = [h for h in hs if h["target"] == "solve_and_simulate"]
                    if ss and rng.random() < 0.7:
                        hs = ss
                if not hs:
                    continue
                hnd = rng.choice(hs)
                pattern = rng.choice([[0, 1], [0, 1, 0], [1, 0, 1], [0, 1, 0, 1]])
                k = len(slist)
                if s0["kind"] == "SOLVE" and hnd.get("jit") and rng.random() < P.get("long_loop_p", 0.5):
                    # a long estimation loop on a compiled function (a call costs milliseconds): deep
                    # call histories, bounded caches, counters, recycled object ids
                    pattern = _loop_pattern(rng, k, rng.randint(12, 40))
                elif k > 2:
                    pattern = _loop_pattern(rng, k, rng.randint(5, 9) if s0["kind"] == "SIM" else rng.randint(5, 12))
                loops.append((slist, w, hnd, rng.choice(["float", "float", "np0d", "np", "int", "np_rov"]), pattern))

        def emit_loop(lp, tag):
            slist, w, hnd, mleaf, pattern = lp
            s0 = slist[0]
            key = f"E{inc_index}_{tag}w{w}:{s0['mid']}"
            first = True
            # an interrupted estimation loop: one of the later calls fails, the caller repeats it
            hit = rng.randrange(1, len(pattern)) if (fault_kinds and rng.random() < 0.6) else None
            # value arrays kept by the caller as ONE list of numpy buffers that is refilled in place
            vf_mode = s0["kind"] == "SIM" and rng.random() < 0.4
            vkey = f"V{inc_index}_{tag}w{w}:{s0['mid']}"
            # how the caller hands over the parameters: one dict overwritten in place between the calls,
            # or (criterion-function idiom) a fresh copy of a base dict per evaluation, dropped afterwards
            fresh = rng.random() < 0.4
            prev_call = None
            for pos, which in enumerate(pattern):
                s = slist[which]
                if not first and not fresh:
                    ops.append({"id": b.oid(), "kind": "MUTATE", "worker": w, "obj": ["params", key], "to": s["pid"], "leaf": mleaf, "model_id": s["mid"]})
                op = make_call(s, w, mleaf, hnd=hnd, prefer_inline_solve=not vf_mode, force_v=vf_mode)
                if op is None:
                    return
                if fresh:
                    op["transient"] = "template"
                    if prev_call is not None:
                        prev_call["prefetch"] = {"for": op["id"], "params": s["pid"], "leaf": mleaf}
                    prev_call = op
                else:
                    op["pobj"] = key
                op["leaf"] = mleaf
                if vf_mode:
                    op["vobj"] = vkey
                    op["vform"] = "np"
                    if not first:
                        ops.append({"id": b.oid(), "kind": "MUTATE", "worker": w, "obj": ["vf", vkey], "to": op["vsrc"][1], "needs": [op["vsrc"][1]], "model_id": s["mid"]})
                if pos == hit:
                    kinds = [k for k in fault_kinds if k != "log_stall"] or ["cancel"]
                    op["_loop_fault"] = rng.choice(kinds)
                ops.append(op)
                first = False

        loop_at = {rng.randrange(max(1, n_ops)): i for i in range(len(loops))}
        for k in range(n_ops):
            if k in loop_at:
                emit_loop(loops[loop_at[k]], loop_at[k])
            if k > 0 and rng.random() < P.get("late_build_p", 0.15) and len(handles) < 8:
                # a function object built in the middle of the session (same model, same or other flags):
                # the calls before and after it on the older objects must not notice
                src_h = rng.choice(handles)
                hid = f"h{inc_index}_L{len(handles)}"
                bo = build_op(hid, src_h["mid"], rng.choice([src_h["target"], "solve_and_simulate", "solve"]), jit=rng.random() < 0.6, debug=rng.random() < debug_p, worker=rng.randrange(n_workers))
                ops.append(bo)
                handles.append({"hid": hid, "mid": src_h["mid"], "target": bo["target"], "build": bo["id"], "jit": bo["jit"]})
            s = rng.choice(sigs)
            w = rng.randrange(n_workers)
            leaf = rng.choice(["float", "np", "np0d", "jax", "int", "npint", "jaxint"]) if extras["retype"] else default_leaf
            op = make_call(s, w, leaf)
            if op is None:
                continue
            # caller-owned mutable parameter object, private to the worker, overwritten in place
            if extras["mutate"] and rng.random() < 0.5:
                key = f"P{inc_index}w{w}:{s['mid']}"
                cur = priv.get(key)
                mleaf = rng.choice(["np0d", "float", "np", "int", "npint", "np_rov"]) if cur is None else cur[1]
                if cur is not None and cur[0] != s["pid"]:
                    ops.append({"id": b.oid(), "kind": "MUTATE", "worker": w, "obj": ["params", key], "to": s["pid"], "leaf": mleaf, "model_id": s["mid"]})
                priv[key] = (s["pid"], mleaf)
                op["pobj"] = key
                op["leaf"] = mleaf
            if rng.random() < 0.25:
                op["pshuffle"] = rng.randrange(1, 2**31)  # the same parameters, dict keys inserted in another order
            if rng.random() < 0.25:
                op["kw"] = True  # params passed by keyword
            hfill = next((h for h in handles if h["hid"] == op["handle"] and h.get("fill") == op["params"]), None)
            if hfill is not None and not op.get("pobj") and rng.random() < 0.5:
                op["pobj"] = f"T:{hfill['hid']}"  # the filled-in template itself is passed as params
                op["leaf"] = hfill["fill_leaf"]
            if extras["transient"] and not op.get("pobj") and rng.random() < 0.6:
                op["transient"] = rng.choice([True, "template", "template"])  # arguments built for this call only (their ids get recycled)
            ops.append(op)
            if extras["clear_caches"] and rng.random() < 0.12:
                ops.append({"id": b.oid(), "kind": "CLEAR_CACHES", "worker": w})
            if extras["gc"] and rng.random() < 0.12:
                ops.append({"id": b.oid(), "kind": "GC", "worker": w})
        return ops, handles, chaos_solve

    # the reference of the second model is sometimes computed in an incarnation of its own (a process
    # that never saw the first model): contamination between models of one process becomes visible
    iso_models = {"m1"} if (n_models == 2 and rng.random() < P.get("iso_ref_p", 0.7)) else set()
    ref_ops_iso = [o for o in ref_ops if o["model_id"] in iso_models]
    ref_ops = [o for o in ref_ops if o["model_id"] not in iso_models]
    ref_solve = {k: v for k, v in ref_solve.items() if k[0] not in iso_models}

    n_chaos = rng.randint(*P["chaos_ops"])
    chaos_ops, handles0, chaos_solve0 = gen_chaos(n_chaos, 0, {})

    # ---------------------------------------------------------------- faults
    def add_faults(ops):
        if not fault_kinds:
            return
        targets = [o for o in ops if o["kind"] in ("BUILD", "SOLVE", "SIMULATE") and not o.get("_loop_fault")]
        rng.shuffle(targets)
        if P.get("fault_bias") == "simulate":
            targets.sort(key=lambda o: o["kind"] != "SIMULATE")  # stable: simulate calls first
        chosen = [(o, rng.choice(fault_kinds), False) for o in targets[: rng.randint(1, 3)]]
        chosen += [(o, o.pop("_loop_fault"), True) for o in ops if o.get("_loop_fault")]
        for o, kind, always_retry in chosen:
            T = b.models[o["model_id"]]["n_periods"]
            # records per call: "Starting ..." + one per period; a solve_and_simulate call logs both parts
            n_rec = 2 * T + 2 if (o["kind"] == "SIMULATE" and o.get("vsrc") is None) else T + 1
            if kind == "log_error":
                f = {"kind": kind, "k": rng.randint(1, n_rec)}
            elif kind == "log_stall":
                f = {"kind": kind, "k": rng.randint(1, n_rec), "q": rng.randint(1, 4)}
            elif kind == "callback_raise":
                fn = rng.choice(b.metas[o["model_id"]]["functions"])
                f = {"kind": kind, "fn": fn, "k": rng.randint(1, 4)}
            else:
                f = {"kind": kind, "n": rng.choice([rng.randint(1, 400), rng.randint(1, 2500), rng.randint(1, 6000)])}
            o.setdefault("faults", []).append(f)
            if kind != "log_stall" and (o["kind"] == "BUILD" or always_retry or rng.random() < 0.6):
                # the caller retries an interrupted build (dependants wait for the retry) and,
                # usually, a failed call: same arguments, same function object, same worker
                retry = dict(o)
                retry.pop("faults")
                retry["id"] = None
                retry["_of"] = o["id"]
                o["_retry"] = retry
            if kind != "log_stall" and o["kind"] in ("SOLVE", "SIMULATE") and rng.random() < 0.5:
                # before (or instead of) the retry the caller uses the same function object for something
                # else: another call signature of the session on the same handle, same worker
                # (only calls that come earlier in the session: everything they depend on has been scheduled before)
                pos_o = next(i for i, x in enumerate(ops) if x is o)
                others = [x for x in ops[:pos_o] if x["kind"] == o["kind"] and x.get("handle") == o["handle"] and x.get("sig") != o.get("sig") and not x.get("pobj") and not x.get("vobj")]
                if others:
                    after = copy.deepcopy(rng.choice(others))
                    for k_ in ("faults", "_retry", "_after", "_loop_fault", "prefetch"):
                        after.pop(k_, None)
                    after["id"] = b.oid()
                    after["worker"] = o["worker"]
                    o["_after"] = after

    add_faults(chaos_ops)

    def finalize(ops):
        """Insert build retries, renumber so that ids increase along the list, fix needs."""
        out = []
        for o in ops:
            out.append(o)
            a = o.pop("_after", None)
            if a is not None:
                out.append(a)
            r = o.pop("_retry", None)
            if r is not None:
                out.append(r)
        mapping = {}
        retry_of = {}
        for idx, o in enumerate(out):
            old = o["id"]
            new = b.oid()
            o["id"] = new
            if old is None:
                retry_of[o.pop("_of")] = new
            else:
                mapping[old] = new
                o["_old"] = old
        final = {old: retry_of.get(old, new) for old, new in mapping.items()}
        for o in out:
            o["needs"] = [final.get(n, n) for n in o.get("needs", [])]
            if o.get("vsrc"):
                o["vsrc"] = [o["vsrc"][0], final.get(o["vsrc"][1], o["vsrc"][1])]
            if o["kind"] == "STORE":
                o["src"] = final.get(o["src"], o["src"])
            if o["kind"] == "MUTATE" and o["obj"][0] == "vf":
                o["to"] = final.get(o["to"], o["to"])
            if o.get("prefetch"):
                o["prefetch"] = dict(o["prefetch"], **{"for": final.get(o["prefetch"]["for"], o["prefetch"]["for"])})
        for o in out:
            o.pop("_old", None)
        return out, final

    # ---------------------------------------------------------------- quiescent phase
    def gen_quiescent(handles, inc_index, chaos_solve, loads_for):
        ops = []
        for s in sigs:
            if s["kind"] == "SOLVE":
                hs = [h for h in handles if h["mid"] == s["mid"] and h["target"] == "solve"]
                if hs:
                    hnd = rng.choice(hs)
                    ops.append(solve_op(hnd["hid"], s, needs=[]))
            else:
                hs = [h for h in handles if h["mid"] == s["mid"] and h["target"] in ("simulate", "solve_and_simulate")]
                if not hs:
                    continue
                hnd = rng.choice(hs)
                if hnd["target"] == "solve_and_simulate" and s["vp"] == s["pid"]:
                    ops.append(sim_op(hnd["hid"], s))
                else:
                    src = None
                    if inc_index == 0 and (s["mid"], s["vp"]) in ref_solve:
                        src = (ref_solve[(s["mid"], s["vp"])], "op")
                    elif (s["mid"], s["vp"]) in loads_for:
                        src = (loads_for[(s["mid"], s["vp"])], "store")
                    elif (s["mid"], s["vp"]) in chaos_solve:
                        src = (chaos_solve[(s["mid"], s["vp"])], "op")
                    if src is None:
                        continue
                    ops.append(sim_op(hnd["hid"], s, vsrc=["op", src[0]], vsrc_kind=src[1]))
        return ops

    incarnations = []
    hashseeds = [rng.randrange(0, 2**32 - 1) for _ in range(3)]
    sched_seeds = [rng.randrange(0, 2**62) for _ in range(3)]
    if ref_ops_iso:
        incarnations.append(
            {
                "hashseed": hashseeds[2],
                "sched": {"seed": sched_seeds[2], "quanta": QUANTA, "weights": QUANTA_MIXES[quanta_mix], "write_p": 0.0},
                "phases": [{"name": "reference", "n_workers": 1, "ops": ref_ops_iso}],
                "iso": True,
            }
        )

    def sched_cfg(i):
        return {"seed": sched_seeds[i], "quanta": QUANTA, "weights": QUANTA_MIXES[quanta_mix], "write_p": write_p}

    if not restart:
        chaos_final, mapping = finalize(chaos_ops)
        cs = {k: mapping.get(v, v) for k, v in chaos_solve0.items()}
        q_ops = gen_quiescent(handles0_fix(handles0, mapping), 0, cs, {})
        incarnations.append(
            {
                "hashseed": hashseeds[0],
                "sched": sched_cfg(0),
                "phases": [
                    {"name": "reference", "n_workers": 1, "ops": ref_ops},
                    {"name": "chaos", "n_workers": n_workers, "ops": chaos_final},
                    {"name": "quiescent", "n_workers": 1, "ops": q_ops},
                ],
            }
        )
    else:
        # solutions go to the durable store, the process is killed, a new one carries on
        store_keys = {}
        store_ops = []
        for (mid, pid), src in ref_solve.items():
            key = f"V:{mid}:{pid}"
            store_keys[(mid, pid)] = key
            store_ops.append({"id": b.oid(), "kind": "STORE", "worker": rng.randrange(n_workers), "src": src, "key": key, "needs": [src]})
        chaos_final, mapping = finalize(chaos_ops + store_ops)
        incarnations.append(
            {
                "hashseed": hashseeds[0],
                "sched": sched_cfg(0),
                "phases": [
                    {"name": "reference", "n_workers": 1, "ops": ref_ops},
                    {"name": "chaos", "n_workers": n_workers, "ops": chaos_final},
                ],
            }
        )
        chaos2, handles1, chaos_solve1 = gen_chaos(max(2, n_chaos // 2), 1, store_keys)
        add_faults(chaos2)
        chaos2_final, mapping2 = finalize(chaos2)
        loads = {}
        for o in chaos2_final:
            if o["kind"] == "LOAD":
                mid, pid = o["key"].split(":")[1:3]
                loads[(mid, pid)] = o["id"]
        cs1 = {k: mapping2.get(v, v) for k, v in chaos_solve1.items()}
        q_ops = gen_quiescent(handles0_fix(handles1, mapping2), 1, cs1, loads)
        incarnations.append(
            {
                "hashseed": hashseeds[1],
                "sched": sched_cfg(1),
                "phases": [
                    {"name": "chaos", "n_workers": n_workers, "ops": chaos2_final},
                    {"name": "quiescent", "n_workers": 1, "ops": q_ops},
                ],
            }
        )

    return {
        "version": 1,
        "run_seed": run_seed,
        "profile": profile,
        "tier": tier,
        "models": b.models,
        "params": b.params,
        "batches": b.batches,
        "spy": spy,
        "script_seed": rng.randrange(2**31),
        "incarnations": incarnations,
        "swarm": {
            "n_models": n_models, "n_workers": n_workers, "fault_kinds": fault_kinds, "extras": extras,
            "restart": restart, "spy": spy, "quanta": quanta_mix, "fresh_ref": fresh_ref, "leaf": default_leaf,
            "iso_ref": sorted(iso_models), "debug_p": debug_p, "write_p": write_p, "fresh_models": fresh_models,
        },
    }


def handles0_fix(handles, mapping):
    return [{**h, "build": mapping.get(h["build"], h["build"])} for h in handles]
