#!/bin/sh
# Regression of the verifier itself: every seeded change under /verif/seeded is applied to a scratch
# copy of /repo/src and the quick tier of the check(s) recorded as catching it is run against that copy
# (VERIF_SEED=1).  One line per (change, property): CAUGHT / MISSED.  Nothing is written to /repo.
# usage: [REGRESS_RUNS=n] regress_seeds.sh [jobs] [pattern]     output: stdout, summary at the end
set -u
jobs=${1:-8}; pat=${2:-S}
work=/tmp/regress.$$; mkdir -p $work
snap=$work/verif; mkdir -p $snap; cp -r /verif/dsim /verif/check /verif/known_findings.jsonl $snap/
caught=0; missed=0
for d in /verif/seeded/${pat}*/; do
  n=$(basename $d)
  props=$(/venv/bin/python - "$d/meta.json" <<'EOF'
import json, sys
m = json.load(open(sys.argv[1]))
cb = m.get("caught_by") or {}
claimed = ("C03", "C04", "C06", "C08", "C09")
# the check recorded as catching it (the first one named under "breaks" if several do)
good = [k for k in cb if k in claimed and "MISSED" not in cb[k][:40]]
pref = [k for k in (m.get("breaks") or []) if k in good]
cand = pref or good or [k for k in cb if k in claimed]
print(cand[0] if cand else "")
EOF
)
  rm -rf $work/src; cp -r /repo/src $work/src
  if ! patch -s -p1 -d $work < $d/patch.diff; then echo "$n PATCH-FAILED"; continue; fi
  for p in $props; do
    out=$(cd $snap && LCM_SRC=$work/src VERIF_SEED=1 DSIM_JOBS=$jobs ./check $p --tier quick --no-minimise --no-evidence ${REGRESS_RUNS:+--runs $REGRESS_RUNS} 2>&1 | grep -E "^(done|  violation)" | head -2 | cut -c1-160 | tr '\n' ' ')
    case "$out" in
      *"violation class"*) echo "$n $p CAUGHT $out"; caught=$((caught+1));;
      *) echo "$n $p MISSED $out"; missed=$((missed+1));;
    esac
  done
done
echo "regression summary: caught=$caught missed=$missed"
rm -rf $work
