"""Write /verif/seeded/<id>/meta.json from the agent's own meta (agent_meta.json) and the log of
tools/try_seed.sh.   usage: mk_seed_meta.py <try_seed log> [<origin text>]
The log holds, per seeded change, the baseline result, the demo exit codes with and without the
patch and the first lines of every check that was run against the patched copy."""
import json
import os
import re
import sys

VERIF = os.path.dirname(os.path.dirname(os.path.abspath(__file__)))


def parse(log):
    blocks, cur = [], None
    for line in open(log):
        line = line.rstrip("\n")
        if line.startswith("--- baseline suite"):
            cur = {"baseline": None, "demo_with": None, "demo_without": None, "checks": {}, "_cur": None}
            blocks.append(cur)
            cur["_sec"] = "baseline"
        elif cur is None:
            continue
        elif line.startswith("--- demo with patch"):
            cur["_sec"] = "with"
        elif line.startswith("--- demo without patch"):
            cur["_sec"] = "without"
        elif line.startswith("--- check "):
            cur["_cur"] = line.split()[-1]
            cur["checks"][cur["_cur"]] = []
            cur["_sec"] = "check"
        elif cur["_sec"] == "baseline" and "passed" in line:
            cur["baseline"] = line.strip()
        elif cur["_sec"] == "with" and line.startswith("exit="):
            cur["demo_with"] = int(line[5:])
        elif cur["_sec"] == "without" and line.startswith("exit="):
            cur["demo_without"] = int(line[5:])
        elif cur["_sec"] == "check":
            cur["checks"][cur["_cur"]].append(line.strip())
    return blocks


def main():
    log = sys.argv[1]
    names = sys.argv[2].split(",")
    origin = sys.argv[3] if len(sys.argv) > 3 else "sub-agent"
    blocks = parse(log)
    assert len(blocks) == len(names), (len(blocks), len(names))
    for name, b in zip(names, blocks):
        d = os.path.join(VERIF, "seeded", name)
        am = {}
        if os.path.exists(os.path.join(d, "agent_meta.json")):
            try:
                am = json.load(open(os.path.join(d, "agent_meta.json")))
            except Exception:  # noqa: BLE001
                am = {}
        caught = {}
        for prop, lines in b["checks"].items():
            cls = sorted({m.group(1) for ln in lines for m in [re.search(r"violation class=([\w-]+)", ln)] if m})
            done = next((ln for ln in lines if ln.startswith("done ")), None)
            if cls:
                caught[prop] = f"quick VERIF_SEED=1: caught, class {', '.join(cls)}; e.g. {next(ln for ln in lines if 'violation class' in ln)[:260]}"
            else:
                caught[prop] = f"quick VERIF_SEED=1: MISSED ({done})"
        ok = b["baseline"] and b["baseline"].startswith("157 passed, 12 errors") and b["demo_with"] == 1 and b["demo_without"] == 0
        meta = {
            "id": name,
            "breaks": [am.get("property")] if am.get("property") else [],
            "origin": origin,
            "summary": am.get("summary"),
            "needs_to_manifest": am.get("needs_to_manifest"),
            "files_changed": am.get("files_changed"),
            "verified_by_me": {
                "ok": bool(ok),
                "baseline_suite_with_patch": b["baseline"],
                "demo_exit_with_patch": b["demo_with"],
                "demo_exit_without_patch": b["demo_without"],
                "how": "tools/try_seed.sh: patch applied to a scratch copy of /repo HEAD (src + tests), baseline suite, demo with/without, then the checks with LCM_SRC pointing at the patched copy",
            },
            "caught_by": caught,
            "commands": [
                f"/verif/tools/try_seed.sh {name} - \"<props>\"",
                f"equivalently: git -C /repo apply /verif/seeded/{name}/patch.diff; ./check <property> --tier quick; git -C /repo checkout -- .",
            ],
        }
        old = os.path.join(d, "meta.json")
        if os.path.exists(old):
            prev = json.load(open(old))
            hist = list(prev.get("history") or [])
            changed = {k: v for k, v in (prev.get("caught_by") or {}).items() if k in caught and v != caught[k]}
            if changed:
                hist.append({"earlier_attempt": changed, "note": "result of an earlier run of the checks (machinery as it was then); see DESIGN.md section 11 for what was strengthened in between"})
            # checks that were not re-run keep their recorded result
            meta["caught_by"] = {**(prev.get("caught_by") or {}), **caught}
            if hist:
                meta["history"] = hist
            for k in ("breaks", "summary", "needs_to_manifest", "files_changed", "origin"):
                if not meta.get(k) and prev.get(k):
                    meta[k] = prev[k]
        with open(old, "w") as fh:
            json.dump(meta, fh, indent=1)
        print(name, "verified" if ok else "NOT VERIFIED", {k: ("caught" if "caught" in v.split(":")[1][:8] else "MISSED") for k, v in caught.items()})


if __name__ == "__main__":
    main()
