"""Determinism self-test (DESIGN 3.5, 6.1): every run seed is executed twice in different pool
processes; the event logs (operations, switch points, faults fired, result digests) must be
byte-identical.  usage: selftest_determinism.py <profile,...> <n_seeds> [first_seed] [jobs]
Exit 0 iff no mismatch and no harness error."""
import concurrent.futures as cf
import multiprocessing as mp
import os
import sys

sys.path.insert(0, os.path.dirname(os.path.dirname(os.path.abspath(__file__))))
from dsim.main import _one_run  # noqa: E402


def main():
    profiles = sys.argv[1].split(",")
    n = int(sys.argv[2])
    first = int(sys.argv[3]) if len(sys.argv) > 3 else 500_000
    jobs = int(sys.argv[4]) if len(sys.argv) > 4 else 16
    tasks = []
    for p in profiles:
        for i in range(n):
            tasks.append((p, first + i, "quick"))
    tasks = tasks + tasks
    res = {}
    bad = herr = 0
    with cf.ProcessPoolExecutor(max_workers=jobs, mp_context=mp.get_context("fork")) as ex:
        for t, rep in zip(tasks, ex.map(_one_run, tasks)):
            if rep.get("harness_error"):
                herr += 1
                print("HARNESS-ERROR", t, str(rep["harness_error"])[:300])
                continue
            key = (t[0], t[1])
            d = (rep["event_digest"], len(rep["violations"]))
            if key in res and res[key] != d:
                bad += 1
                print("MISMATCH", key, res[key], d)
            res.setdefault(key, d)
    print(f"determinism selftest: {len(res)} run seeds x 2, mismatches={bad}, harness_errors={herr}, driver PYTHONHASHSEED={os.environ.get('PYTHONHASHSEED')}")
    return 1 if (bad or herr) else 0


if __name__ == "__main__":
    sys.exit(main())
