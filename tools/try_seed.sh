#!/bin/sh
# usage: try_seed.sh <seed-name> <agent worktree or "-"> "<prop> <prop> ..." [runs]
# Verification of a seeded change by hand:
# 1. copy the deliverables to /verif/seeded/<name>/ (unless "-")  2. scratch copy of /repo/src + patch
#    under /tmp/mut/<name>  3. baseline suite + demo with and without the patch
# 4. the named checks (quick tier, VERIF_SEED=1) against the patched copy, run from a snapshot of /verif
set -u
name=$1; wt=$2; props=$3; runs=${4:-}
d=/verif/seeded/$name; mkdir -p $d
if [ "$wt" != "-" ]; then cp $wt/patch.diff $wt/demo.py $d/ ; cp $wt/meta.json $d/agent_meta.json; fi
rm -rf /tmp/mut/$name; mkdir -p /tmp/mut/$name
cp -r /repo/src /tmp/mut/$name/src; cp -r /repo/tests /tmp/mut/$name/tests; cp /repo/pyproject.toml /tmp/mut/$name/
patch -s -p1 -d /tmp/mut/$name < $d/patch.diff || { echo "PATCH FAILED"; exit 2; }
cp $d/demo.py /tmp/mut/$name/demo.py
echo "--- baseline suite with patch"; (cd /tmp/mut/$name && PYTHONPATH=/tmp/mut/$name/src /venv/bin/python -m pytest -q -p no:cacheprovider --timeout=900 --continue-on-collection-errors 2>&1 | tail -1)
echo "--- demo with patch";    (cd /tmp/mut/$name && PYTHONPATH=/tmp/mut/$name/src:/tmp/mut/$name timeout 900 /venv/bin/python demo.py > demo_with.log 2>&1; echo "exit=$?")
echo "--- demo without patch"; (cd /tmp/mut/$name && PYTHONPATH=/repo/src:/tmp/mut/$name timeout 900 /venv/bin/python demo.py > demo_without.log 2>&1; echo "exit=$?")
snap=/tmp/snap/$name; rm -rf $snap; mkdir -p $snap
cp -r /verif/dsim /verif/check /verif/known_findings.jsonl $snap/
cd $snap
for p in $props; do
  echo "--- check $p"
  LCM_SRC=/tmp/mut/$name/src VERIF_SEED=1 ./check $p --tier quick --no-minimise --no-evidence ${runs:+--runs $runs} 2>&1 | grep -E "^(done|VIOL|  viol|HARNESS|KNOWN)" | cut -c1-420 | head -4
done
rm -rf $snap
[ -n "${KEEP_MUT:-}" ] || rm -rf /tmp/mut/$name   # pass KEEP_MUT=1 in the environment to keep the patched copy for LCM_SRC experiments
