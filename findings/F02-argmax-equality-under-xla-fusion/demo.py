"""Genuine defect found by the C08 check (run seed 22114565, VERIF_SEED=4, quick tier) on the tree
before the fix commit: with a few hundred agents or more, `simulate` reports for many agents the
FIRST point of the continuous-choice grid instead of the optimal one (the reported value is the
optimal value), so the path of an agent depends on how many other agents are in the batch.

Cause: lcm.argmax.argmax finds the index as `a == max(a)`; inside jax.jit XLA re-computes the
utilities separately for the reduction and for the comparison, the results differ in the last bit,
no element equals the maximum and index 0 is returned.

usage: PYTHONPATH=<lcm src> python demo.py      exit 1 = agents depend on the batch, 0 = they do not
"""
import sys
import types

import jax

jax.config.update("jax_enable_x64", True)
if not hasattr(jax, "util"):  # the installed jax has no jax.util (environment fact, not the defect)
    m = types.ModuleType("jax.util")
    m.safe_zip = lambda *a: list(zip(*a, strict=True))

    def unzip2(pairs):
        xs, ys = [], []
        for x, y in pairs:
            xs.append(x)
            ys.append(y)
        return tuple(xs), tuple(ys)

    m.unzip2 = unzip2
    sys.modules["jax.util"] = m
    jax.util = m

import jax.numpy as jnp  # noqa: E402
import numpy as np  # noqa: E402

from lcm import LinspaceGrid, Model  # noqa: E402
from lcm.entry_point import get_lcm_function  # noqa: E402


def utility(a, s, cons, g, k):
    return -k * jnp.exp(-g * cons) + 0.007674863583643891 * s


def income(wage, k):
    return wage + k


def cons(a, s, income):
    return a + income - s


def next_a(s, r):
    return jnp.clip((1.0 + r) * s + 0.45426871414849446, 0.855, 6.1824)


def budget_constraint(s, a, income):
    return s <= a + income


MODEL = Model(
    description="one continuous state, one continuous choice",
    n_periods=3,
    functions={"utility": utility, "income": income, "cons": cons, "next_a": next_a, "budget_constraint": budget_constraint},
    choices={"s": LinspaceGrid(start=0.43, stop=4.9, n_points=9)},
    states={"a": LinspaceGrid(start=0.855, stop=5.376, n_points=3)},
)
PARAMS = {
    "beta": 0.925826039,
    "utility": {"g": 0.320455997, "k": 1.907675153},
    "cons": {},
    "budget_constraint": {},
    "income": {"k": 0.046980231, "wage": 2.0},
    "next_a": {"r": 0.112591466},
}


def main():
    f, _ = get_lcm_function(MODEL, targets="solve_and_simulate")
    rng = np.random.default_rng(0)
    a0 = rng.uniform(0.855, 5.376, size=1000)
    cols = ["a", "s", "value"]
    ref = {}
    for i in range(0, 60, 6):  # the first 60 agents, six at a time
        df = f(PARAMS, initial_states={"a": jnp.array(a0[i : i + 6])})
        for j in range(6):
            ref[i + j] = df.xs(j, level=1)[cols].to_numpy()
    bad_total = 0
    for n in (60, 500, 1000):
        df = f(PARAMS, initial_states={"a": jnp.array(a0[:n])})
        bad = [i for i in range(60) if not np.allclose(df.xs(i, level=1)[cols].to_numpy(), ref[i], rtol=1e-9, atol=1e-11)]
        print(f"batch of {n}: {len(bad)} of the first 60 agents have another path than in a batch of six", bad[:8])
        if bad:
            i = bad[0]
            print("  agent", i, "in the small batch (a, s, value per period):", ref[i].round(6).tolist())
            print("  agent", i, f"in the batch of {n}:                       ", df.xs(i, level=1)[cols].to_numpy().round(6).tolist())
        bad_total += len(bad)
    print("VIOLATION of C08" if bad_total else "C08 holds here")
    return 1 if bad_total else 0


if __name__ == "__main__":
    sys.exit(main())
